#!/bin/sh
# Offline setup: nothing to build or install; verify the interpreter sees /repo's working tree.
set -e
cd "$(dirname "$0")"
/venv/bin/python - <<'PY'
import mypy, os, sys
assert os.path.realpath(os.path.dirname(mypy.__file__)) == "/repo/mypy", mypy.__file__
import mypy.build, mypy.dmypy_server, mypy.build_worker.worker  # noqa
print("setup ok: mypy from", mypy.__file__, "python", sys.version.split()[0])
PY
mkdir -p evidence replays
