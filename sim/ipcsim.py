"""ipcsim: the shipped dmypy `Server.serve()` loop under a simulated transport.

`mypy.ipc.socket` (and `mypy.ipc.select`) are replaced by the objects below, so
that `accept`, `recv`, `sendall`, `settimeout` are answered by the scenario's op
list.  The server is the only thread; there is no real socket and no sleep.

Op list (JSON, the replay format):
  {"op":"edit","files":{path: text|null}}           apply between two connections
  {"op":"idle"}                                     accept() times out (if a timeout is set)
  {"op":"client","kind":"request","req":{...},      well-formed request frame
       "cuts":[...]|"bytes1"|null,                   how the bytes arrive in recv() calls
       "reply":"read"|{"hangup_frames":k}|{"hangup_bytes":n},
       "exc":"EPIPE"|"ECONNRESET",
       "trailing_hex": "..."}                        extra bytes sent after the frame
  {"op":"client","kind":"raw","hex":"...","cuts":...,"end":"close"|"reset"}
"""

from __future__ import annotations

import errno
import io
import json
import os
import struct
import sys
from typing import Any


class SimEnd(BaseException):
    """Raised from accept() when the op list is exhausted (not a daemon exit path)."""


def frame(payload: bytes) -> bytes:
    return struct.pack("!L", len(payload)) + payload


def request_bytes(req: dict[str, Any]) -> bytes:
    return frame(json.dumps(req).encode("utf-8"))


def split_frames(data: bytes) -> tuple[list[bytes], bytes]:
    """Independent decoder for what a client received (not the code under test)."""
    out = []
    while len(data) >= 4:
        (n,) = struct.unpack("!L", data[:4])
        if len(data) < 4 + n:
            break
        out.append(data[4 : 4 + n])
        data = data[4 + n :]
    return out, data


def chunk(data: bytes, cuts: Any) -> list[bytes]:
    if cuts == "bytes1":
        return [data[i : i + 1] for i in range(len(data))]
    if not cuts:
        return [data] if data else []
    pts = sorted({c for c in cuts if 0 < c < len(data)})
    res = []
    prev = 0
    for p in pts + [len(data)]:
        res.append(data[prev:p])
        prev = p
    return [c for c in res if c]


class FakeConn:
    """Server side of one accepted connection, driven by a client op."""

    def __init__(self, sim: "IpcSim", op: dict[str, Any], index: int) -> None:
        self.sim = sim
        self.op = op
        self.index = index
        if op["kind"] == "request":
            data = request_bytes(op["req"]) + bytes.fromhex(op.get("trailing_hex", ""))
        else:
            data = bytes.fromhex(op["hex"])
        self.incoming = chunk(data, op.get("cuts"))
        self.end = op.get("end", "close")
        self.received = bytearray()  # what the client got from the server
        self.sent_calls = 0
        self.closed_by_server = False
        self.hung_up = False
        self.recv_calls = 0

    # -- socket API used by mypy.ipc
    def setsockopt(self, *a: Any) -> None:
        pass

    def settimeout(self, t: Any) -> None:
        pass

    def fileno(self) -> int:
        return -1

    def recv(self, size: int) -> bytes:
        self.recv_calls += 1
        self.sim.steps += 1
        if self.incoming:
            c = self.incoming[0]
            if len(c) > size:
                self.incoming[0] = c[size:]
                c = c[:size]
            else:
                self.incoming.pop(0)
            return c
        # The scripted client has nothing more to send: it has gone away.
        self.sim.count("recv_eof")
        if self.end == "reset":
            self.sim.count("recv_reset")
            raise ConnectionResetError(errno.ECONNRESET, "Connection reset by peer")
        return b""

    def sendall(self, data: bytes) -> None:
        self.sim.steps += 1
        reply = self.op.get("reply", "read") if self.op["kind"] == "request" else "gone"
        exc = self.op.get("exc", "EPIPE")
        if reply == "gone":
            # A client that never sent a valid request does not wait for a reply either.
            self.hung_up = True
        elif isinstance(reply, dict):
            if "hangup_frames" in reply and self.sent_calls >= reply["hangup_frames"]:
                self.hung_up = True
            if "hangup_bytes" in reply and len(self.received) + len(data) > reply["hangup_bytes"]:
                keep = max(0, reply["hangup_bytes"] - len(self.received))
                self.received.extend(data[:keep])
                self.hung_up = True
        if self.hung_up:
            self.sim.count("reply_hangup")
            if exc == "ECONNRESET":
                raise ConnectionResetError(errno.ECONNRESET, "Connection reset by peer")
            raise BrokenPipeError(errno.EPIPE, "Broken pipe")
        self.sent_calls += 1
        self.received.extend(data)

    def close(self) -> None:
        self.closed_by_server = True


class FakeListen:
    def __init__(self, sim: "IpcSim") -> None:
        self.sim = sim
        self.timeout: float | None = None
        self.path = ""

    def bind(self, path: str) -> None:
        self.path = path

    def listen(self, n: int) -> None:
        pass

    def settimeout(self, t: float | None) -> None:
        self.timeout = t

    def setsockopt(self, *a: Any) -> None:
        pass

    def getsockname(self) -> str:
        return self.path

    def close(self) -> None:
        pass

    def accept(self) -> tuple[FakeConn, None]:
        return self.sim.next_connection(self), None


class FakeSocketModule:
    AF_UNIX = 1
    SOL_SOCKET = 1
    SO_RCVBUF = 8
    SO_SNDBUF = 7

    def __init__(self, sim: "IpcSim") -> None:
        self._sim = sim

    def socket(self, family: int = 1, *a: Any) -> FakeListen:
        return FakeListen(self._sim)


class IpcSim:
    def __init__(self, ops: list[dict[str, Any]], root: str, status_file: str) -> None:
        self.ops = ops
        self.pos = 0
        self.root = root
        self.status_file = status_file
        self.conns: list[FakeConn] = []
        self.events: list[Any] = []
        self.counters: dict[str, int] = {}
        self.steps = 0
        self.sim_time = 0.0
        self.status_seen: list[bool] = []

    def count(self, k: str, n: int = 1) -> None:
        self.counters[k] = self.counters.get(k, 0) + n

    def status_names_me(self) -> bool:
        try:
            with open(self.status_file) as f:
                d = json.load(f)
            return d.get("pid") == os.getpid()
        except (OSError, ValueError):
            return False

    def apply_edit(self, files: dict[str, Any]) -> None:
        for rel, text in sorted(files.items()):
            p = os.path.join(self.root, rel)
            if text is None:
                if os.path.exists(p):
                    os.unlink(p)
            else:
                os.makedirs(os.path.dirname(p), exist_ok=True)
                with open(p, "w") as f:
                    f.write(text)
                self.sim_time += 2.0
                t = 1_000_000_000 + int(self.sim_time)
                os.utime(p, (t, t))

    def next_connection(self, listener: FakeListen) -> FakeConn:
        while True:
            if self.pos >= len(self.ops):
                raise SimEnd()
            op = self.ops[self.pos]
            self.pos += 1
            if op["op"] == "edit":
                self.apply_edit(op["files"])
                self.events.append(["edit", self.pos - 1])
            elif op["op"] == "idle":
                if listener.timeout is not None:
                    self.sim_time += listener.timeout
                    self.count("idle_timeout")
                    self.events.append(["idle", self.pos - 1])
                    raise TimeoutError("timed out")
            elif op["op"] == "client":
                self.status_seen.append(self.status_names_me())
                conn = FakeConn(self, op, self.pos - 1)
                self.conns.append(conn)
                self.events.append(["accept", self.pos - 1])
                return conn
            else:
                raise AssertionError(op)

    def responses(self) -> list[dict[str, Any]]:
        """What each scripted client observed."""
        out = []
        for c in self.conns:
            frames, rest = split_frames(bytes(c.received))
            decoded: list[Any] = []
            for fr in frames:
                try:
                    decoded.append(json.loads(fr.decode("utf-8")))
                except Exception:
                    decoded.append({"undecodable": fr.hex()})
            final = None
            stream: dict[str, str] = {"stdout": "", "stderr": ""}
            for d in decoded:
                if isinstance(d, dict) and d.get("final"):
                    final = d
                elif isinstance(d, dict):
                    for k in ("stdout", "stderr"):
                        if k in d:
                            stream[k] += str(d[k])
            out.append(
                {
                    "op_index": c.index,
                    "kind": c.op["kind"],
                    "frames": len(frames),
                    "rest": len(rest),
                    "final": final,
                    "stream": stream,
                    "hung_up": c.hung_up,
                    "closed_by_server": c.closed_by_server,
                    "recv_calls": c.recv_calls,
                    "unread_request_bytes": sum(len(x) for x in c.incoming),
                }
            )
        return out


def essential(final: dict[str, Any] | None) -> Any:
    """The part of a final response the property talks about."""
    if final is None:
        return None
    return {k: final[k] for k in ("out", "err", "status", "error", "restart") if k in final}


def serve_in_child(
    ops: list[dict[str, Any]],
    root: str,
    flags: list[str],
    timeout: int | None,
    base_files: dict[str, str],
) -> dict[str, Any]:
    """Runs in a forked child: the real Server.serve() against the scripted clients."""
    import mypy.dmypy_server as ds
    import mypy.ipc as ipc

    os.makedirs(root, exist_ok=True)
    os.chdir(root)
    status_file = os.path.join(root, ".dmypy.json")
    sim = IpcSim(ops, root, status_file)
    sim.apply_edit(base_files)
    ipc.socket = FakeSocketModule(sim)  # type: ignore[attr-defined]

    def no_select(*a: Any, **k: Any) -> Any:
        raise AssertionError("select() must not be reached by the daemon's serve loop")

    ipc.select = no_select  # type: ignore[attr-defined]
    options = ds.process_start_options(flags, allow_sources=False)
    options.use_builtins_fixtures = True
    server = ds.Server(options, status_file, timeout=timeout)
    exit_kind: Any
    real_stdout, real_stderr = sys.stdout, sys.stderr
    sys.stdout = io.StringIO()
    sys.stderr = io.StringIO()
    try:
        try:
            server.serve()
            exit_kind = ["returned"]
        except SimEnd:
            exit_kind = ["sim_end"]
        except SystemExit as e:
            exit_kind = ["sys_exit", e.code]
        except BaseException as e:
            exit_kind = ["exception", type(e).__name__, str(e)[:300]]
        leaked_out = sys.stdout.getvalue() if isinstance(sys.stdout, io.StringIO) else ""
        leaked_err = sys.stderr.getvalue() if isinstance(sys.stderr, io.StringIO) else ""
    finally:
        sys.stdout, sys.stderr = real_stdout, real_stderr
    return {
        "exit": exit_kind,
        "ops_consumed": sim.pos,
        "responses": sim.responses(),
        "status_file_left": sim.status_names_me(),
        "status_seen": sim.status_seen,
        "counters": sim.counters,
        "steps": sim.steps,
        "sim_time": sim.sim_time,
        "events": sim.events,
        "server_stderr": leaked_err[-2000:],
        "server_stdout": leaked_out[-500:],
        "buffer_left": len(getattr(server, "_verif_none", b"")),
    }
