"""Scenario source 2: the repository's own test corpus, read at run time from /repo with
the repository's `parse_test_data`, turned into file-level histories.

A case becomes {"file", "name", "steps": [ {path: text|None} ... ], "flags": [[...] per step],
"argv": [[...] per step]}; step 0 is the base tree.  Layout: everything in the run's cwd, the
case's main program as main.py, `[builtins fixtures/x.pyi]` as ./builtins.pyi (found before
lib-stub through the cwd entry of the search path, exactly like the suite's tmp/ directory).
"""

from __future__ import annotations

import os
import re
import shlex
from typing import Any

from sim import kit

UNIT = os.path.join(kit.REPO, "test-data", "unit")
_case_re = re.compile(r"^\[case ([^]+)]+)\][ \t]*$\n", re.DOTALL | re.MULTILINE)
_suffix_re = re.compile(r"-(skip|xfail|only_when_[a-z_]+|posix|windows|writescache|skip_path_normalization)")


def _unprefix(p: str) -> str:
    return p[4:] if p.startswith("tmp/") else p


def _flags(line: str) -> list[str]:
    try:
        toks = shlex.split(line)
    except ValueError:
        toks = line.split()
    out = []
    for t in toks:
        t = t.replace("tmp/", "")
        out.append(t)
    return out


def parse_case(file: str, name: str, body: str) -> dict[str, Any] | None:
    from mypy.test.data import expand_variables, parse_test_data

    items = parse_test_data(body, name)
    if not items:
        return None
    first = items[0]
    steps: dict[int, dict[str, Any]] = {0: {}}
    main_text = "\n".join(first.data) + "\n"
    steps[0]["main.py"] = main_text
    flags: dict[int, list[str]] = {}
    argv: dict[int, list[str]] = {}
    for line in first.data[:8]:
        m = re.match(r"# flags(\d*): (.*)$", line)
        if m:
            flags[int(m.group(1) or 1) - 1] = _flags(m.group(2))
        m = re.match(r"# cmd(\d*): mypy (.*)$", line)
        if m:
            argv[int(m.group(1) or 1) - 1] = _flags(m.group(2))
    for item in items[1:]:
        if item.id in ("file", "fixture"):
            assert item.arg is not None
            arg = item.arg
            text = expand_variables("\n".join(item.data)) + "\n"
            m = re.match(r"(.*)\.(\d+)$", arg)
            if m and not arg.endswith((".py", ".pyi", ".ini", ".toml", ".cfg", ".txt", ".typed")):
                steps.setdefault(int(m.group(2)) - 1, {})[_unprefix(m.group(1))] = text
            else:
                steps[0][_unprefix(arg)] = text
        elif item.id in ("builtins", "typing", "_typeshed"):
            assert item.arg is not None
            src = os.path.join(UNIT, item.arg)
            try:
                with open(src, encoding="utf8") as f:
                    steps[0][item.id + ".pyi"] = f.read()
            except OSError:
                return None
        elif item.id == "delete":
            assert item.arg is not None
            m = re.match(r"(.*)\.(\d+)$", item.arg)
            if m:
                steps.setdefault(int(m.group(2)) - 1, {})[_unprefix(m.group(1))] = None
    nsteps = max(steps) + 1
    # main.N style updates of the main program are written as [file main.py.N]? (not used); keep simple
    return {
        "file": os.path.basename(file),
        "name": name,
        "steps": [steps.get(i, {}) for i in range(nsteps)],
        "flags": [flags.get(i) for i in range(nsteps)],
        "argv": [argv.get(i) for i in range(nsteps)],
    }


def load_file(fname: str) -> list[dict[str, Any]]:
    path = os.path.join(UNIT, fname)
    with open(path, encoding="utf-8") as f:
        data = f.read()
    parts = _case_re.split(data)
    out = []
    it = iter(parts[1:])
    for case_id in it:
        body = next(it)
        if _suffix_re.search(case_id):
            continue
        c = parse_case(path, case_id, body)
        if c is not None:
            out.append(c)
    return out


def step_flags(case: dict[str, Any], i: int) -> list[str]:
    """Flags in force at step i (a `# flagsN:` line overrides from that step on... the suite
    uses the step's own line when present, else the first)."""
    f = case["flags"][i] if i < len(case["flags"]) else None
    if f is None:
        f = case["flags"][0]
    return list(f or [])


def step_argv(case: dict[str, Any], i: int) -> list[str]:
    a = case["argv"][i] if i < len(case["argv"]) else None
    if a is None:
        a = case["argv"][0]
    return list(a) if a else ["main.py"]


UNSUPPORTED_FLAGS = ("--verbose", "--config-file", "--python-executable", "--custom-typeshed-dir", "--shadow-file", "--cache-map", "--bazel", "--package-root", "--junit-xml", "-report", "--quickstart-file", "--install-types", "--plugin")


def usable(case: dict[str, Any]) -> bool:
    for fl in case["flags"]:
        for t in fl or []:
            if any(u in t for u in UNSUPPORTED_FLAGS) or t in ("-v", "-vv"):
                return False
    for st in case["steps"]:
        for p in st:
            if p.endswith((".ini", ".toml", ".cfg")) or "plugin" in p:
                return False
    return True


TRANSFORMS = ["forward", "revert_first", "revert_prev", "skip_step", "one_file_at_a_time", "touch_noise", "restore_backup", "all_at_once"]


def trees_of(case: dict[str, Any]) -> list[dict[str, str]]:
    trees = [dict(case["steps"][0])]
    for d in case["steps"][1:]:
        t = dict(trees[-1])
        for p, txt in d.items():
            if txt is None:
                t.pop(p, None)
            else:
                t[p] = txt
        trees.append(t)
    return trees


def delta(a: dict[str, str], b: dict[str, str]) -> list[dict[str, Any]]:
    ops: list[dict[str, Any]] = []
    for p in sorted(set(a) - set(b)):
        ops.append({"e": "delete", "path": p})
    for p in sorted(b):
        if a.get(p) != b[p]:
            ops.append({"e": "write", "path": p, "text": b[p]})
    return ops


def transform_history(case: dict[str, Any], tr: str, rng: Any) -> tuple[dict[str, str], list[dict[str, Any]]]:
    """New history derived from a multi-step corpus case: (initial tree, steps of file-level ops)."""
    trees = trees_of(case)
    seq = list(range(len(trees)))
    if tr in ("revert_first", "restore_backup"):
        seq = seq + [0]
    elif tr == "all_at_once":
        seq = [0, len(trees) - 1] if len(trees) > 1 else seq
    elif tr == "revert_prev":
        seq = seq + [max(0, len(trees) - 2), len(trees) - 1]
    elif tr == "skip_step" and len(trees) > 2:
        drop = rng.randrange(1, len(trees) - 1)
        seq = [i for i in seq if i != drop]
    steps = []
    prev = trees[seq[0]]
    for i in seq[1:]:
        ops = delta(prev, trees[i])
        if tr == "one_file_at_a_time" and len(ops) > 1:
            for op in ops:
                steps.append({"edits": [op], "gap_s": 2.0, "run": True, "tree": i})
        else:
            if tr == "touch_noise" and prev:
                ops = ops + [{"e": "touch", "path": rng.choice(sorted(prev))}]
            steps.append({"edits": ops, "gap_s": 2.0, "run": True, "tree": i})
        prev = trees[i]
    if tr == "restore_backup" and steps:
        # the last step puts the first version back the way `mv f.orig f` / `cp -p` / a restore from
        # backup does: every restored file also gets back the (older) mtime it had then
        for op in steps[-1]["edits"]:
            if op["e"] == "write":
                op["restore_mtime"] = True
    for st in steps:
        st["start_tree"] = seq[0]
    return trees[seq[0]], steps
