"""histsim: edit/run histories over a durable cache, with a simulated mtime clock.

A scenario (the replay format) is JSON:
  {"project": <project state>, "config": {"store":..., "format":..., "shards":..., "extra_flags": [...]},
   "steps": [ {"edits": [op...], "gap_s": float, "run": bool, "run_spec": {...}} ... ]}
Execution is a pure function of the scenario and the code in /repo.
"""

from __future__ import annotations

import copy
import os
import random
from typing import Any

from sim import kit, project, runner
from sim.world import World

STORE_CONFIGS = [
    {"store": "sqlite", "shards": 16, "format": "ff"},
    {"store": "sqlite", "shards": 1, "format": "ff"},
    {"store": "files", "shards": 0, "format": "ff"},
    {"store": "sqlite", "shards": 16, "format": "json"},
    {"store": "sqlite", "shards": 1, "format": "json"},
    {"store": "files", "shards": 0, "format": "json"},
]


def config_flags(cfg: dict[str, Any]) -> list[str]:
    flags = []
    if cfg["store"] == "default":
        pass
    elif cfg["store"] == "sqlite":
        flags += ["--sqlite-cache", "--sqlite-num-shards", str(cfg["shards"])]
    else:
        flags += ["--no-sqlite-cache"]
    if cfg["format"] == "json":
        flags += ["--no-fixed-format-cache"]
    flags += list(cfg.get("extra_flags", []))
    return flags


def gen_gap(rng: random.Random, mode: str) -> float:
    """Simulated seconds between two edit steps."""
    r = rng.random()
    if mode == "plain":
        return rng.choice([1.0, 2.0, 3.5, 10.0, 61.0])
    if r < 0.55:
        return rng.choice([1.0, 1.5, 2.0, 7.0])
    if r < 0.70:
        return 86400.0 * rng.randint(1, 400)  # forward jump
    if r < 0.85:
        return -float(rng.choice([1, 2, 5, 3600, 86400]))  # back-jump (clock reset, restored checkout)
    return rng.choice([0.0, 0.3, 0.999])  # sub-second: equal mtimes on *different* files are possible


class History:
    """Executes a scenario step by step; the caller supplies the judgement."""

    def __init__(self, scn: dict[str, Any], name: str, stall_ok: bool = False) -> None:
        self.scn = scn
        self.world = World(name, builtins_fixture=None if "files" in scn else "dataclasses.pyi")
        self.raw = "files" in scn  # corpus-derived scenario: file-level ops instead of the model
        self.state = copy.deepcopy(scn.get("project") or {})
        self.raw_files: dict[str, str] = dict(scn.get("files") or {})
        self.raw_argv: list[str] = list(scn.get("argv") or ["main.py"])
        self.cfg = scn["config"]
        self.stall_ok = stall_ok
        self.mtimes: dict[str, tuple[int, int]] = {}  # rel -> (int mtime, size) of last write
        self.first_mtime: dict[tuple[str, str], float] = {}  # (rel, text) -> mtime when first written
        self.run_clock_ns = 2_000_000_000 * 10**9
        self.n_runs = 0
        self.sync_initial()

    def current_files(self) -> dict[str, str]:
        if self.raw:
            return dict(self.raw_files)
        return project.render_files(self.state)

    def sync_initial(self) -> None:
        files = self.current_files()
        for rel, text in sorted(files.items()):
            self.world.write(rel, text)
            self.first_mtime[(rel, text)] = self.world.now_s
            self.mtimes[rel] = (int(self.world.now_s), len(text.encode()))

    def apply_step(self, step: dict[str, Any]) -> list[str]:
        touched_mods: list[str] = []
        touch_only: list[str] = []
        touch_paths: list[str] = []
        restore: set[str] = set()
        for op in step.get("edits", []):
            if self.raw:
                if op["e"] == "write":
                    self.raw_files[op["path"]] = op["text"]
                    if op.get("restore_mtime"):
                        restore.add(op["path"])
                elif op["e"] == "delete":
                    self.raw_files.pop(op["path"], None)
                elif op["e"] == "touch":
                    touch_paths.append(op["path"])
                elif op["e"] == "argv":
                    self.raw_argv = list(op["argv"])
                continue
            mods = project.apply_edit(self.state, op)
            if op["e"] == "touch":
                touch_only += mods
            touched_mods += mods
        self.world.advance(step.get("gap_s", 1.0))
        files = self.current_files()
        # environment assumption (main campaign): a content change changes (int(mtime), size)
        changed = []
        for rel in sorted(set(self.world.files) - set(files)):
            self.world.delete(rel)
            self.mtimes.pop(rel, None)
            changed.append(rel)
        for rel, text in sorted(files.items()):
            if self.world.files.get(rel) == text:
                continue
            size = len(text.encode())
            t = self.world.now_s
            old = self.mtimes.get(rel)
            if rel in restore and (rel, text) in self.first_mtime:
                t = self.first_mtime[(rel, text)]  # restored together with its old timestamp
            if self.stall_ok and old is not None and 2 <= old[1] - size <= 400 and rel.endswith((".py", ".pyi")):
                # stall family: make the save keep the file size (padding comment), so that together
                # with an unchanged mtime second the edit is invisible to stat-based change detection
                text = text + "#" + "x" * (old[1] - size - 2) + "\n"
                size = len(text.encode())
            if old is not None and not self.stall_ok and old == (int(t), size):
                t = float(int(t) + 1)  # an editor save that lands in the same second: next tick
            self.world.write(rel, text, mtime=t)
            self.first_mtime.setdefault((rel, text), t)
            self.mtimes[rel] = (int(t), size)
            changed.append(rel)
        for rel in touch_paths:
            if rel in self.world.files and rel not in changed:
                self.world.touch(rel)
                self.mtimes[rel] = (int(self.world.now_s), self.mtimes.get(rel, (0, 0))[1])
        for mid in touch_only:
            if mid in self.state["mods"] and self.state["mods"][mid]["exists"]:
                rel = project.mod_path(self.state, mid)
                if rel in self.world.files and rel not in changed:
                    self.world.touch(rel)
                    self.mtimes[rel] = (int(self.world.now_s), self.mtimes.get(rel, (0, 0))[1])
        return changed

    def argv(self, cache: str, extra: list[str] | None = None) -> list[str]:
        return (
            (list(self.raw_argv) if self.raw else project.argv_files(self.state))
            + ["--cache-dir", self.world.cache_dir(cache)]
            + config_flags(self.cfg)
            + list(extra or [])
        )

    def run(self, cache: str = "warm", extra: list[str] | None = None, faults: dict[str, Any] | None = None,
            step_ns: int = 50_000_000, same_second_as_prev: bool = False, **more: Any) -> dict[str, Any]:
        self.n_runs += 1
        if not same_second_as_prev and cache == "warm":
            self.run_clock_ns += 3 * 10**9
        spec = {
            "cwd": self.world.proj,
            "argv": self.argv(cache, extra),
            "env": self.world.env(),
            "child_output": os.path.join(self.world.root, "child.out"),
            "oplog_path": os.path.join(self.world.root, "oplog.json"),
            "clock_start_ns": self.run_clock_ns,
            "clock_step_ns": step_ns,
            "faults": faults or {},
        }
        spec.update(more)
        res = runner.run(spec)
        if cache == "warm" and isinstance(res.get("clock_end_ns"), int):
            self.run_clock_ns = max(self.run_clock_ns, res["clock_end_ns"])
        return res

    def cold(self, extra: list[str] | None = None, **more: Any) -> dict[str, Any]:
        name = f"cold{self.n_runs}"
        try:
            return self.run(cache=name, extra=extra, **more)
        finally:
            self.world.drop_cache(name)

    def close(self) -> None:
        self.world.destroy()


def gen_history_scenario(rng: random.Random, *, acyclic: bool = False, max_steps: int = 8, clock_mode: str | None = None,
                         cfg: dict[str, Any] | None = None, max_mods: int = 8) -> dict[str, Any]:
    state = project.gen_project(rng, acyclic=acyclic, max_mods=max_mods)
    cfg = dict(cfg or rng.choice(STORE_CONFIGS))
    clock_mode = clock_mode or rng.choice(["plain", "wild", "wild"])
    n = rng.randint(min(2, max_steps), max_steps)
    steps = []
    sim = copy.deepcopy(state)
    for _ in range(n):
        edits = []
        for _ in range(rng.choice([1, 1, 1, 2, 2, 3, 4])):
            op = project.gen_edit(rng, sim, acyclic=acyclic)
            project.apply_edit(sim, op)
            edits.append(op)
        steps.append({"edits": edits, "gap_s": gen_gap(rng, clock_mode), "run": rng.random() < 0.85})
    steps[-1]["run"] = True
    return {"project": state, "config": cfg, "steps": steps, "clock_mode": clock_mode}
