"""Generated multi-module project model with absolute edit ops.

A project state is plain JSON:
  {"mods": {modid: Mod}, "roots": [modid...], "argv_mode": "files"|"dir"}
  Mod = {"exists": bool, "stub": bool, "broken": bool, "inline": str|None,
         "imports": [Imp], "slots": {name: Slot}, "uses": [Use], "pad": int}
  Imp = {"mod": modid, "style": "import"|"from"|"func"|"tc"|"star", "ignore": bool}
  Slot (by name prefix): f* function, C* class, v* variable, A* alias
  Use = {"imp": i, "kind": "call"|"attr"|"reveal"|"sub"|"var"|"ann"|"inst", "name": str, ...}
Types are strings over a small universe; {"cls": [imp_index|-1, "C0"]} denotes a class
reference through an import of the *defining* module (or local when -1).

Edit ops are absolute ("slot s of module m := spec"), so dropping earlier ops during
minimisation leaves later ops meaningful.  Rendering is deterministic.
"""

from __future__ import annotations

import copy
import os
import random
from typing import Any

BASIC = ["int", "str", "bool", "Optional[int]", "list[int]", "dict[str, int]"]
LITERAL = {
    "int": "1",
    "str": "'s'",
    "bool": "True",
    "Optional[int]": "None",
    "list[int]": "[1]",
    "dict[str, int]": "{'k': 1}",
}
FUNCS = ["f0", "f1"]
CLASSES = ["C0", "C1"]
VARS = ["v0"]
ALIASES = ["A0"]
ATTRS = ["attr", "other"]
METHS = ["meth"]

HEADER = "from typing import Optional, TYPE_CHECKING\n"


# --------------------------------------------------------------------------
# paths


def is_pkg(state: dict[str, Any], mid: str) -> bool:
    return any(m.startswith(mid + ".") for m in state["mods"])


def mod_path(state: dict[str, Any], mid: str, stub: bool = False) -> str:
    parts = mid.split(".")
    ext = ".pyi" if stub else ".py"
    if is_pkg(state, mid):
        return os.path.join(*parts, "__init__" + ext)
    return os.path.join(*parts) + ext


# --------------------------------------------------------------------------
# rendering


def ref_name(state: dict[str, Any], mid: str, imp: dict[str, Any], name: str) -> str:
    style = imp["style"]
    if style == "star":
        return name
    if style == "from":
        # imported under an alias, so that it never collides with a local definition
        return imp["mod"].replace(".", "_") + "_" + name
    return imp["mod"] + "." + name


def render_type(state: dict[str, Any], mid: str, mod: dict[str, Any], t: Any, quoted: bool = False) -> str:
    if isinstance(t, dict):
        if "tup" in t:
            return "tuple[" + ", ".join(render_type(state, mid, mod, x) for x in t["tup"]) + "]"
        if "dictof" in t:
            return "dict[str, " + render_type(state, mid, mod, t["dictof"]) + "]"
        i, cname = t["cls"]
        if i == -1:
            s = cname
        elif 0 <= i < len(mod["imports"]):
            s = ref_name(state, mid, mod["imports"][i], cname)
        else:
            s = cname
        return s
    return t


def leaf_cls_refs(t: Any) -> list[Any]:
    if isinstance(t, dict):
        if "tup" in t:
            return [r for x in t["tup"] for r in leaf_cls_refs(x)]
        if "dictof" in t:
            return leaf_cls_refs(t["dictof"])
        return [t]
    return []


def type_needs_quote(mod: dict[str, Any], t: Any) -> bool:
    for r in leaf_cls_refs(t):
        i = r["cls"][0]
        if 0 <= i < len(mod["imports"]) and mod["imports"][i]["style"] in ("tc", "func"):
            return True
    return False


def ann(state: dict[str, Any], mid: str, mod: dict[str, Any], t: Any) -> str:
    s = render_type(state, mid, mod, t)
    if type_needs_quote(mod, t):
        return '"' + s + '"'
    return s


def literal_for(state: dict[str, Any], mid: str, mod: dict[str, Any], t: Any) -> str:
    if isinstance(t, dict):
        if type_needs_quote(mod, t):
            return "None"
        if "tup" in t:
            return "(" + ", ".join(literal_for(state, mid, mod, x) for x in t["tup"]) + ",)"
        if "dictof" in t:
            return "{'k': " + literal_for(state, mid, mod, t["dictof"]) + "}"
        return render_type(state, mid, mod, t) + "()"
    return LITERAL.get(t, "None")


def render_slot(state: dict[str, Any], mid: str, mod: dict[str, Any], name: str, s: dict[str, Any]) -> list[str]:
    out: list[str] = []
    if "reexport" in s:
        i = s["reexport"]
        if 0 <= i < len(mod["imports"]):
            target = mod["imports"][i]["mod"]
            out.append(f"from {target} import {name}" + (f" as {name}" if s.get("explicit") else ""))
        return out
    if name.startswith("f"):
        params = []
        for i, p in enumerate(s.get("params", [])):
            d = ""
            if i >= len(s["params"]) - s.get("defaults", 0):
                d = " = " + literal_for(state, mid, mod, p)
            params.append(f"p{i}: {ann(state, mid, mod, p)}{d}")
        deco = s.get("deco")
        if deco:
            out.append(f"@{deco}")
        out.append(f"def {name}({', '.join(params)}) -> {ann(state, mid, mod, s['ret'])}:")
        body_t = s.get("body", s["ret"])
        out.append(f"    return {literal_for(state, mid, mod, body_t)}")
    elif name.startswith("C"):
        base = s.get("base")
        b = ""
        if base is not None:
            b = "(" + render_type(state, mid, mod, base) + ")"
        if s.get("flavour") == "protocol":
            out.append("from typing import Protocol")
            b = "(Protocol)"
        if s.get("flavour") == "dataclass":
            out.append("from dataclasses import dataclass")
            out.append("@dataclass")
        out.append(f"class {name}{b}:")
        n = 0
        for a, t in sorted(s.get("attrs", {}).items()):
            if s.get("flavour") == "protocol":
                out.append(f"    {a}: {ann(state, mid, mod, t)}")
            else:
                out.append(f"    {a}: {ann(state, mid, mod, t)} = {literal_for(state, mid, mod, t)}")
            n += 1
        for m, (params, ret) in sorted(s.get("methods", {}).items()):
            ps = "".join(f", a{i}: {ann(state, mid, mod, p)}" for i, p in enumerate(params))
            out.append(f"    def {m}(self{ps}) -> {ann(state, mid, mod, ret)}:")
            out.append(f"        return {literal_for(state, mid, mod, ret)}")
            n += 1
        if n == 0:
            out.append("    pass")
    elif name.startswith("v"):
        if s.get("annotated", True):
            out.append(f"{name}: {ann(state, mid, mod, s['type'])} = {literal_for(state, mid, mod, s.get('value', s['type']))}")
        else:
            out.append(f"{name} = {literal_for(state, mid, mod, s.get('value', s['type']))}")
    elif name.startswith("A"):
        out.append(f"{name} = {render_type(state, mid, mod, s['target'])}")
    return out


def render_use(state: dict[str, Any], mid: str, mod: dict[str, Any], k: int, u: dict[str, Any]) -> tuple[list[str], bool]:
    """Returns (lines, needs_function_scope)."""
    i = u["imp"]
    if not (0 <= i < len(mod["imports"])):
        return [], False
    imp = mod["imports"][i]
    ref = ref_name(state, mid, imp, u["name"])
    in_func = imp["style"] == "func"
    tc = imp["style"] == "tc"
    ign = "  # type: ignore" + (f"[{u['ignore']}]" if u.get("ignore") not in (None, True) else "") if u.get("ignore") else ""
    kind = u["kind"]
    lines: list[str] = []
    if tc:
        # only usable in annotations
        lines.append(f'def _t{k}(p: "{ref}") -> None:{ign}')
        if kind in ("attr", "reveal"):
            lines.append(f"    reveal_type(p)")
        else:
            lines.append("    pass")
        return lines, False
    args = ", ".join(literal_for(state, mid, mod, a) for a in u.get("args", []))
    if kind == "call":
        lines.append(f"u{k}: {ann(state, mid, mod, u['type'])} = {ref}({args}){ign}")
    elif kind == "attr":
        lines.append(f"u{k}: {ann(state, mid, mod, u['type'])} = {ref}().{u.get('attr', 'attr')}{ign}")
    elif kind == "reveal":
        lines.append(f"reveal_type({ref}){ign}")
    elif kind == "sub":
        if in_func:
            lines.append(f"reveal_type({ref}){ign}")
        else:
            lines.append(f"class S{k}({ref}):{ign}")
            lines.append(f"    def {u.get('meth', 'meth')}(self, a0: {ann(state, mid, mod, u['type'])}) -> {ann(state, mid, mod, u.get('ret', 'int'))}:")
            lines.append(f"        return {literal_for(state, mid, mod, u.get('ret', 'int'))}")
    elif kind == "var":
        lines.append(f"u{k}: {ann(state, mid, mod, u['type'])} = {ref}{ign}")
    elif kind == "ann":
        lines.append(f"def _a{k}(p: {ref}) -> None:{ign}")
        lines.append(f"    reveal_type(p.{u.get('attr', 'attr')})")
    elif kind == "inst":
        lines.append(f"u{k} = {ref}({args}){ign}")
        lines.append(f"reveal_type(u{k})")
    elif kind == "deep":
        # reference through a chain of module attributes: m1.m2.m3.C0 (indirect module dependencies)
        full = imp["mod"] + "." + ".".join(u.get("path", [])) + "." + u["name"] if u.get("path") else ref
        lines.append(f"def _d{k}(p: {full}) -> None:{ign}")
        lines.append(f"    reveal_type(p)")
    elif kind == "chain":
        # value obtained through a call, then attribute: indirect dependency on the class's module
        lines.append(f"u{k} = {ref}({args}){ign}")
        lines.append(f"reveal_type(u{k}.{u.get('attr', 'attr')})")
    return lines, in_func


def render_import(state: dict[str, Any], mid: str, mod: dict[str, Any], imp: dict[str, Any], names: list[str]) -> list[str]:
    ign = "  # type: ignore" if imp.get("ignore") else ""
    target = imp["mod"]
    style = imp["style"]
    if style == "import":
        return [f"import {target}{ign}"]
    if style == "from":
        nm = sorted(set(names)) or ["f0"]
        al = target.replace(".", "_")
        return [f"from {target} import {', '.join(f'{n} as {al}_{n}' for n in nm)}{ign}"]
    if style == "star":
        return [f"from {target} import *{ign}"]
    if style == "tc":
        return ["if TYPE_CHECKING:", f"    import {target}{ign}"]
    return []  # func-level imports are rendered inside the function


def render_module(state: dict[str, Any], mid: str, stub: bool = False) -> str:
    mod = state["mods"][mid]
    lines: list[str] = []
    if mod.get("inline"):
        lines.append(f"# mypy: {mod['inline']}")
    lines.append(HEADER.rstrip("\n"))
    names_by_imp: dict[int, list[str]] = {}
    for u in mod["uses"]:
        names_by_imp.setdefault(u["imp"], []).append(u["name"])

    def collect(t: Any) -> None:
        for r in leaf_cls_refs(t):
            if r["cls"][0] >= 0:
                names_by_imp.setdefault(r["cls"][0], []).append(r["cls"][1])

    for s in mod["slots"].values():
        for p in s.get("params", []):
            collect(p)
        for key in ("ret", "body", "base", "type", "value", "target"):
            if key in s and s[key] is not None:
                collect(s[key])
        for t in s.get("attrs", {}).values():
            collect(t)
        for params, ret in s.get("methods", {}).values():
            for p in params:
                collect(p)
            collect(ret)
    for u in mod["uses"]:
        for key in ("type", "ret"):
            if key in u:
                collect(u[key])
        for a in u.get("args", []):
            collect(a)
    for i, imp in enumerate(mod["imports"]):
        lines.extend(render_import(state, mid, mod, imp, names_by_imp.get(i, [])))
    order = {"C": 0, "A": 1, "v": 2, "f": 3}
    for name in sorted(mod["slots"], key=lambda n: (order.get(n[0], 9), n)):
        sl = render_slot(state, mid, mod, name, mod["slots"][name])
        if stub:
            sl = [l if not l.startswith("    return") else "    ..." for l in sl]
        lines.extend(sl)
    if not stub:
        func_bodies: dict[int, list[str]] = {}
        for k, u in enumerate(mod["uses"]):
            ul, in_func = render_use(state, mid, mod, k, u)
            if in_func:
                func_bodies.setdefault(u["imp"], []).extend(ul)
            else:
                lines.extend(ul)
        for i, imp in enumerate(mod["imports"]):
            if imp["style"] == "func":
                ign = "  # type: ignore" if imp.get("ignore") else ""
                lines.append(f"def _g{i}() -> None:")
                lines.append(f"    import {imp['mod']}{ign}")
                for l in func_bodies.get(i, []):
                    lines.append("    " + l)
    if mod.get("broken"):
        lines.append("def broken(:")
    text = "\n".join(lines) + "\n"
    pad = mod.get("pad", 0)
    if pad:
        text += "# " + "x" * pad + "\n"
    return text


PLUGIN_TEXT = '''from mypy.plugin import Plugin
# plugin version {n}
class SimPlugin(Plugin):
    def get_function_hook(self, fullname):
        if fullname.endswith(".f1"):
            return hook
        return None
def hook(ctx):
    return ctx.api.named_generic_type("builtins.{t}", [])
def plugin(version):
    return SimPlugin
'''


def render_files(state: dict[str, Any]) -> dict[str, str]:
    """path -> text for every file that exists in this state."""
    files: dict[str, str] = {}
    if state.get("plugin") is not None:
        n = int(state["plugin"])
        text = PLUGIN_TEXT.format(n=n, t=["int", "str", "bool"][n % 3])
        if state.get("plugin_wide"):
            # a plugin whose version is visible in more diagnostics (every f0/f1 call)
            text = text.replace('if fullname.endswith(".f1"):', 'if fullname.endswith((".f0", ".f1")):')
        files["simplug.py"] = text
        files["mypy.ini"] = "[mypy]\nplugins = simplug.py\n"
    for mid, mod in sorted(state["mods"].items()):
        if not mod["exists"]:
            continue
        files[mod_path(state, mid)] = render_module(state, mid)
        if mod.get("stub"):
            files[mod_path(state, mid, stub=True)] = render_module(state, mid, stub=True)
    # packages whose __init__ module is absent but that have existing children become
    # namespace directories automatically (no file written)
    return files


def argv_files(state: dict[str, Any]) -> list[str]:
    if state.get("argv_mode") == "dir":
        return ["."]
    out = []
    for r in state["roots"]:
        if state["mods"][r]["exists"]:
            out.append(mod_path(state, r))
    return out


# --------------------------------------------------------------------------
# generation


def gen_type(rng: random.Random, mod: dict[str, Any], allow_cls: bool = True, depth: int = 0) -> Any:
    r = rng.random()
    if allow_cls and r < 0.3:
        cands = [-1] + [i for i, imp in enumerate(mod["imports"])]
        return {"cls": [rng.choice(cands), rng.choice(CLASSES)]}
    if depth == 0 and r < 0.38:
        return {"tup": [gen_type(rng, mod, allow_cls, 1) for _ in range(rng.randint(2, 3))]}
    if depth == 0 and r < 0.43:
        return {"dictof": gen_type(rng, mod, allow_cls, 1)}
    return rng.choice(BASIC)


def gen_slot(rng: random.Random, mod: dict[str, Any], name: str) -> dict[str, Any]:
    if mod["imports"] and rng.random() < 0.15:
        # the name is not defined here but re-exported from an imported module
        return {"reexport": rng.randrange(len(mod["imports"])), "explicit": rng.random() < 0.5}
    if name.startswith("f"):
        n = rng.choice([0, 1, 1, 2, 2, 3])
        params = [gen_type(rng, mod) for _ in range(n)]
        ret = gen_type(rng, mod)
        s: dict[str, Any] = {"params": params, "defaults": rng.randint(0, n), "ret": ret}
        if rng.random() < 0.12:
            s["body"] = rng.choice(BASIC)  # possibly wrong return -> error inside a function body
        return s
    if name.startswith("C"):
        s = {"attrs": {}, "methods": {}}
        if rng.random() < 0.4:
            cands = [i for i, imp in enumerate(mod["imports"]) if imp["style"] in ("import", "from", "star")]
            if cands and rng.random() < 0.7:
                s["base"] = {"cls": [rng.choice(cands), rng.choice(CLASSES)]}
            elif name == "C1":
                s["base"] = {"cls": [-1, "C0"]}
        for a in ATTRS:
            if rng.random() < 0.6:
                s["attrs"][a] = gen_type(rng, mod)
        if rng.random() < 0.6:
            s["methods"]["meth"] = [[gen_type(rng, mod, False)], gen_type(rng, mod)]
        r = rng.random()
        if r < 0.08 and "base" not in s:
            s["flavour"] = "protocol"
        elif r < 0.16 and "base" not in s:
            s["flavour"] = "dataclass"
        return s
    if name.startswith("v"):
        t = gen_type(rng, mod)
        s = {"type": t, "annotated": rng.random() < 0.7}
        if rng.random() < 0.1:
            s["value"] = rng.choice(BASIC)
        return s
    return {"target": gen_type(rng, mod)}


def gen_use(rng: random.Random, mod: dict[str, Any]) -> dict[str, Any]:
    i = rng.randrange(len(mod["imports"]))
    kind = rng.choice(["call", "call", "attr", "reveal", "sub", "var", "ann", "inst", "chain", "chain"])
    u: dict[str, Any] = {"imp": i, "kind": kind}
    if kind in ("call", "chain"):
        u["name"] = rng.choice(FUNCS)
        u["args"] = [gen_type(rng, mod, False) for _ in range(rng.randint(0, 2))]
    elif kind in ("attr", "sub", "ann", "inst"):
        u["name"] = rng.choice(CLASSES)
        u["args"] = []
    elif kind == "var":
        u["name"] = rng.choice(VARS + ALIASES)
    else:
        u["name"] = rng.choice(FUNCS + CLASSES + VARS + ALIASES)
    u["type"] = gen_type(rng, mod)
    u["attr"] = rng.choice(ATTRS)
    if kind == "sub":
        u["ret"] = gen_type(rng, mod)
    if rng.random() < 0.08:
        u["ignore"] = rng.choice([True, "assignment", "attr-defined", "arg-type"])
    return u


def _shift_imp_refs(obj: Any, by: int) -> None:
    """Import indices inside a slot spec after an import was inserted at the front."""
    if isinstance(obj, dict):
        if "cls" in obj and isinstance(obj["cls"], list) and obj["cls"][0] >= 0:
            obj["cls"][0] += by
        if "reexport" in obj:
            obj["reexport"] += by
        for v in obj.values():
            _shift_imp_refs(v, by)
    elif isinstance(obj, list):
        for v in obj:
            _shift_imp_refs(v, by)


def gen_deep_use(rng: random.Random, state: dict[str, Any], mid: str) -> dict[str, Any] | None:
    """A use like `p: m1.m2.C0` that is valid only while m1 keeps `import m2` (and so on)."""
    mod = state["mods"][mid]
    cands = [i for i, imp in enumerate(mod["imports"]) if imp["style"] == "import" and imp["mod"] in state["mods"]]
    if not cands:
        return None
    i = rng.choice(cands)
    cur = mod["imports"][i]["mod"]
    path = []
    for _ in range(rng.randint(1, 3)):
        nxt = [imp["mod"] for imp in state["mods"][cur]["imports"] if imp["style"] == "import" and imp["mod"] in state["mods"] and "." not in imp["mod"]]
        if not nxt:
            break
        cur = rng.choice(nxt)
        path.append(cur)
    if not path:
        return None
    return {"imp": i, "kind": "deep", "name": rng.choice(CLASSES), "path": path, "type": "int", "attr": "attr"}


def gen_imports(rng: random.Random, mid: str, mods: list[str], n: int, allow_missing: bool = True) -> list[dict[str, Any]]:
    others = [m for m in mods if m != mid]
    imps = []
    for _ in range(n):
        if allow_missing and rng.random() < 0.06:
            # (some are near-misses of stdlib modules that exist only in some Python versions,
            # so that mypy's "Did you mean ...?" suggestions come into play)
            target = rng.choice(["nonexistent", "pkg.nonexistent", "m0.zzz", "tomlib", "distutil", "asynchatt", "imghdrr"])
        else:
            target = rng.choice(others)
        style = rng.choices(["import", "from", "func", "tc", "star"], [5, 4, 2, 1.5, 0.7])[0]
        imps.append({"mod": target, "style": style, "ignore": rng.random() < 0.05})
    return imps


def gen_module(rng: random.Random, mid: str, mods: list[str], acyclic_order: list[str] | None) -> dict[str, Any]:
    if acyclic_order is not None:
        idx = acyclic_order.index(mid)
        cands = acyclic_order[idx + 1 :]
    else:
        cands = [m for m in mods if m != mid]
    n = min(len(cands), rng.choice([0, 1, 1, 2, 2, 3])) if cands else 0
    mod: dict[str, Any] = {
        "exists": True,
        "stub": False,
        "broken": False,
        "inline": None,
        "imports": [],
        "slots": {},
        "uses": [],
        "pad": 0,
    }
    if n:
        mod["imports"] = gen_imports(rng, mid, cands + ([mid] if False else []), n)
    for name in FUNCS + CLASSES + VARS + ALIASES:
        if rng.random() < 0.65:
            mod["slots"][name] = gen_slot(rng, mod, name)
    if mod["imports"]:
        for _ in range(rng.randint(1, 5)):
            mod["uses"].append(gen_use(rng, mod))
    return mod


def gen_project(rng: random.Random, acyclic: bool = False, max_mods: int = 8) -> dict[str, Any]:
    n = rng.randint(3, max_mods)
    mods = [f"m{i}" for i in range(n)]
    if rng.random() < 0.6 and n >= 4:
        # turn some modules into a package with submodules
        mods = mods[: n - 3] + ["pkg", "pkg.sub", "pkg.sub2"]
        if rng.random() < 0.3:
            mods.append("ns.leaf")  # namespace package (no ns/__init__.py)
    order = list(mods)
    rng.shuffle(order)
    if "m0" in order:
        order.remove("m0")
        order.insert(0, "m0")
    state: dict[str, Any] = {"mods": {}, "roots": ["m0"], "argv_mode": "files"}
    for mid in mods:
        state["mods"][mid] = gen_module(rng, mid, mods, order if acyclic or rng.random() < 0.5 else None)
    if rng.random() < 0.3:
        # swarm shape "chains": a spine of plain `import` edges m_i -> m_{i+1}, deep attribute-chain
        # uses along it, optional back edges (cycles) and a second entry point further down, so that
        # edits of the import structure below unchanged modules are common
        spine = [m for m in mods if "." not in m]
        state["shape"] = "chains"
        state["spine"] = spine
        for a, b in zip(spine, spine[1:]):
            imps = state["mods"][a]["imports"]
            if not any(i["mod"] == b and i["style"] == "import" for i in imps):
                imps.insert(0, {"mod": b, "style": "import", "ignore": False})
                for u in state["mods"][a]["uses"]:
                    u["imp"] += 1
                for sl in state["mods"][a]["slots"].values():
                    _shift_imp_refs(sl, 1)
        if len(spine) >= 3 and not acyclic and rng.random() < 0.6:
            back = rng.choice(spine[1:3])
            state["mods"][back]["imports"].append({"mod": spine[0], "style": rng.choice(["import", "func"]), "ignore": False})
        if len(spine) >= 4:
            state["roots"] = sorted(set(state["roots"]) | {rng.choice(spine[2:])})
    for mid in mods:
        if rng.random() < (0.9 if state.get("shape") == "chains" else 0.5):
            du = gen_deep_use(rng, state, mid)
            if du is not None:
                state["mods"][mid]["uses"].append(du)
    # "ns" itself is not a module with a file
    extra_roots = [m for m in mods if m != "m0" and "." not in m and rng.random() < 0.25]
    state["roots"] += extra_roots
    if rng.random() < 0.12:
        state["argv_mode"] = "dir"
    if rng.random() < 0.15:
        state["plugin"] = rng.randint(0, 5)
    return state


# --------------------------------------------------------------------------
# edit ops (absolute)


def referenced_slots(state: dict[str, Any]) -> list[tuple[str, str]]:
    """(module, name) pairs that some OTHER module's use, base class or annotation refers to."""
    out = []
    for mid, mod in sorted(state["mods"].items()):
        for u in mod["uses"]:
            if 0 <= u["imp"] < len(mod["imports"]):
                tgt = mod["imports"][u["imp"]]["mod"]
                if u.get("path"):
                    tgt = u["path"][-1]
                if tgt in state["mods"] and tgt != mid:
                    out.append((tgt, u["name"]))
        for sl in mod["slots"].values():
            for key in ("base", "ret", "type", "target"):
                for r in leaf_cls_refs(sl.get(key)) if sl.get(key) is not None else []:
                    i = r["cls"][0]
                    if 0 <= i < len(mod["imports"]) and mod["imports"][i]["mod"] in state["mods"]:
                        out.append((mod["imports"][i]["mod"], r["cls"][1]))
            if "reexport" in sl and 0 <= sl["reexport"] < len(mod["imports"]):
                tgt = mod["imports"][sl["reexport"]]["mod"]
                if tgt in state["mods"]:
                    for nm, s2 in mod["slots"].items():
                        if s2 is sl:
                            out.append((tgt, nm))
    return out


def gen_edit(rng: random.Random, state: dict[str, Any], acyclic: bool = False) -> dict[str, Any]:
    mods = sorted(state["mods"])
    mid = rng.choice(mods)
    mod = state["mods"][mid]
    r = rng.random()
    if r < 0.42:
        name = rng.choice(FUNCS + CLASSES + VARS + ALIASES)
        refs = referenced_slots(state)
        if refs and rng.random() < 0.6:
            # bias: change something another (untouched) module depends on
            mid, name = rng.choice(refs)
            mod = state["mods"][mid]
        spec = None if rng.random() < 0.15 else gen_slot(rng, mod, name)
        return {"e": "slot", "mod": mid, "name": name, "spec": spec}
    if r < 0.60 and mod["imports"]:
        uses = [gen_use(rng, mod) for _ in range(rng.randint(0, 5))]
        if rng.random() < 0.4:
            du = gen_deep_use(rng, state, mid)
            if du is not None:
                uses.append(du)
        return {"e": "uses", "mod": mid, "uses": uses}
    if r < 0.72:
        if state.get("shape") == "chains" and rng.random() < 0.7:
            # drop or restore one spine import, everything else in that module stays
            spine = [m for m in state.get("spine", []) if m in state["mods"]]
            if len(spine) >= 3:
                j = rng.randrange(0, len(spine) - 1)
                a, b = spine[j], spine[j + 1]
                imps = copy.deepcopy(state["mods"][a]["imports"])
                has = [i for i, im in enumerate(imps) if im["mod"] == b and im["style"] == "import"]
                if has:
                    # keep the indices of the other imports stable: the slot becomes an ignored import of nothing
                    imps[has[0]] = {"mod": "spine_gap", "style": "import", "ignore": True, "spine_for": b}
                else:
                    cand = [i for i, im in enumerate(imps) if im.get("spine_for") == b]
                    if cand:
                        imps[cand[0]] = {"mod": b, "style": "import", "ignore": False}
                    else:
                        imps.append({"mod": b, "style": "import", "ignore": False})
                return {"e": "imports", "mod": a, "imports": imps}
        if acyclic:
            return {"e": "touch", "mod": mid}
        n = rng.choice([0, 1, 2, 3])
        imps = gen_imports(rng, mid, mods, n) if len(mods) > 1 else []
        return {"e": "imports", "mod": mid, "imports": imps}
    if r < 0.80 and mid != "m0":
        return {"e": "exists", "mod": mid, "value": not mod["exists"]}
    if r < 0.85:
        return {"e": "stub", "mod": mid, "value": not mod.get("stub")}
    if r < 0.90:
        return {"e": "broken", "mod": mid, "value": not mod.get("broken")}
    if r < 0.915 and state.get("argv_mode") != "dir":
        cur = state.get("plugin")
        return {"e": "plugin", "mod": "m0", "value": rng.choice([None, (cur or 0) + 1, (cur or 0) + 2]) if cur is not None else rng.randint(0, 5)}
    if r < 0.94:
        return {"e": "inline", "mod": mid, "value": rng.choice([None, "ignore-errors", "disallow-any-expr", "no-strict-optional", "warn-return-any"])}
    return {"e": "touch", "mod": mid}


def apply_edit(state: dict[str, Any], op: dict[str, Any]) -> list[str]:
    """Mutates state; returns module ids whose files must be rewritten (or removed)."""
    mid = op["mod"]
    if op["e"] == "plugin":
        state["plugin"] = op["value"]
        return []
    if mid not in state["mods"]:
        return []
    mod = state["mods"][mid]
    e = op["e"]
    if e == "slot":
        if op["spec"] is None:
            mod["slots"].pop(op["name"], None)
        else:
            mod["slots"][op["name"]] = copy.deepcopy(op["spec"])
    elif e == "uses":
        mod["uses"] = copy.deepcopy(op["uses"])
    elif e == "imports":
        mod["imports"] = copy.deepcopy(op["imports"])
        mod["uses"] = [u for u in mod["uses"] if u["imp"] < len(mod["imports"])]
    elif e == "exists":
        mod["exists"] = bool(op["value"])
    elif e == "stub":
        mod["stub"] = bool(op["value"])
    elif e == "broken":
        mod["broken"] = bool(op["value"])
    elif e == "inline":
        mod["inline"] = op["value"]
    elif e == "touch":
        pass
    return [mid]
