"""World: one scenario's directory tree (project, lib, cache) on tmpfs, written only
through here so that every source mtime comes from the simulated clock."""

from __future__ import annotations

import os
import shutil
from typing import Any

from sim import kit

EPOCH_S = 1_000_000_000  # simulated time origin for source files


class World:
    def __init__(self, name: str, builtins_fixture: str | None = "dataclasses.pyi") -> None:
        self.root = kit.new_dir(name)
        self.proj = os.path.join(self.root, "proj")
        self.lib = os.path.join(self.root, "lib")
        os.makedirs(self.proj)
        os.makedirs(self.lib)
        self.now_s = float(EPOCH_S)
        self.sim_advance_s = 0.0
        self.files: dict[str, str] = {}
        self.mt: dict[str, float] = {}
        if builtins_fixture:
            src = os.path.join(kit.REPO, "test-data", "unit", "fixtures", builtins_fixture)
            dst = os.path.join(self.lib, "builtins.pyi")
            shutil.copy(src, dst)
            os.utime(dst, (EPOCH_S - 1000, EPOCH_S - 1000))

    def advance(self, seconds: float) -> None:
        self.now_s += seconds
        self.sim_advance_s += abs(seconds)

    def _stamp_dirs(self, rel: str, t: float) -> None:
        """Directory mtimes are visible to mypy (namespace packages are validated by the
        directory's stat), so they come from the simulated clock as well."""
        d = os.path.dirname(self.path(rel))
        while len(d) > len(self.proj) and not os.path.isdir(d):
            d = os.path.dirname(d)
        while len(d) >= len(self.proj) and os.path.isdir(d):
            os.utime(d, (t, t))
            if d == self.proj:
                break
            d = os.path.dirname(d)

    def path(self, rel: str) -> str:
        return os.path.join(self.proj, rel)

    def write(self, rel: str, text: str, mtime: float | None = None) -> None:
        p = self.path(rel)
        os.makedirs(os.path.dirname(p), exist_ok=True)
        with open(p, "w", encoding="utf-8", newline="") as f:
            f.write(text)
        t = self.now_s if mtime is None else mtime
        os.utime(p, (t, t))
        self.files[rel] = text
        self.mt[rel] = t
        self._stamp_dirs(rel, t)

    def touch(self, rel: str) -> None:
        p = self.path(rel)
        if os.path.exists(p):
            os.utime(p, (self.now_s, self.now_s))
            self.mt[rel] = self.now_s

    def delete(self, rel: str) -> None:
        p = self.path(rel)
        if os.path.exists(p):
            os.unlink(p)
        self.files.pop(rel, None)
        self.mt.pop(rel, None)
        # prune empty directories (a package directory disappears with its last file)
        d = os.path.dirname(p)
        while d != self.proj and os.path.isdir(d) and not os.listdir(d):
            os.rmdir(d)
            d = os.path.dirname(d)
        self._stamp_dirs(rel, self.now_s)

    def sync(self, files: dict[str, str], force: set[str] | None = None) -> list[str]:
        """Make the project tree equal `files`; only changed files are rewritten."""
        changed = []
        for rel in sorted(set(self.files) - set(files)):
            self.delete(rel)
            changed.append(rel)
        for rel, text in sorted(files.items()):
            if self.files.get(rel) != text or (force and rel in force):
                self.write(rel, text)
                changed.append(rel)
        return changed

    def _dir_mtimes(self) -> dict[str, float]:
        out = {}
        for d, _, _ in os.walk(self.proj):
            out[os.path.relpath(d, self.proj)] = os.stat(d).st_mtime
        return out

    def snapshot_files(self) -> tuple[dict[str, str], dict[str, float]]:
        """(files, mtimes); directory mtimes are stored in the mtime map under 'dir:<rel>'."""
        mt = dict(self.mt)
        for d, t in self._dir_mtimes().items():
            mt["dir:" + d] = t
        return dict(self.files), mt

    def restore_files(self, snap: tuple[dict[str, str], dict[str, float]]) -> None:
        """Put back exactly the tree of a snapshot, including every file's and directory's mtime."""
        files, mt = snap
        for rel in sorted(set(self.files) - set(files)):
            self.delete(rel)
        for rel, text in sorted(files.items()):
            if self.files.get(rel) != text or self.mt.get(rel) != mt[rel]:
                self.write(rel, text, mtime=mt[rel])
        for key, t in mt.items():
            if key.startswith("dir:"):
                d = os.path.normpath(os.path.join(self.proj, key[4:]))
                if os.path.isdir(d):
                    os.utime(d, (t, t))

    def env(self) -> dict[str, Any]:
        return {"MYPYPATH": self.lib, "MYPY_TEST_PREFIX": kit.REPO, "MYPY_CACHE_DIR": None}

    def cache_dir(self, name: str = "warm") -> str:
        return os.path.join(self.root, "cache_" + name)

    def drop_cache(self, name: str) -> None:
        kit.rmtree(self.cache_dir(name))

    def destroy(self) -> None:
        kit.rmtree(self.root)
