"""daemonsim: one long-lived dmypy `Server` object driven through cmd_check/cmd_recheck while
the watched file tree changes underneath it (simulated mtime clock, faulty saves), with a
FRESH daemon on the same files as the oracle after every request.

A daemon history child receives the whole list of (tree, request) steps; a tree is the exact
file set with exact mtimes (produced by sim/world.py in the parent), so the long-lived daemon
and the fresh oracle daemons see byte- and mtime-identical files in two different directories.
"""

from __future__ import annotations

import io
import os
import sys
from typing import Any

from sim import kit
from sim.world import World


FIXTURES = {"on": True}


def _make_server(flags: list[str], root: str) -> Any:
    import mypy.dmypy_server as ds

    options = ds.process_start_options(list(flags), allow_sources=False)
    options.use_builtins_fixtures = FIXTURES["on"]
    return ds.Server(options, os.path.join(root, ".dmypy.json"))


def _request(server: Any, req: dict[str, Any]) -> dict[str, Any]:
    out, err = io.StringIO(), io.StringIO()
    real_out, real_err = sys.stdout, sys.stderr
    sys.stdout, sys.stderr = out, err
    try:
        try:
            if req["cmd"] == "check":
                r = server.cmd_check(list(req["files"]), export_types=False, is_tty=False, terminal_width=80)
            else:
                r = server.cmd_recheck(is_tty=False, terminal_width=80, export_types=False,
                                       remove=list(req["remove"]) if req.get("remove") is not None else None,
                                       update=list(req["update"]) if req.get("update") is not None else None)
        except SystemExit as e:
            r = {"sys_exit": str(e.code)}
        except BaseException:  # what Server.serve would report as "Daemon crashed!"
            import traceback

            r = {"crash": traceback.format_exc()[-3000:]}
    finally:
        sys.stdout, sys.stderr = real_out, real_err
    res = {k: r[k] for k in ("out", "err", "status", "error", "crash", "sys_exit") if k in r}
    res["printed"] = out.getvalue()[-500:] + err.getvalue()[-500:]
    st = getattr(server, "fine_grained_manager", None)
    res["updated"] = [str(m) for m in getattr(st, "updated_modules", [])] if st is not None else []
    return res


def _setup_env(lib: str) -> None:
    os.environ["MYPYPATH"] = lib
    os.environ.setdefault("MYPY_TEST_PREFIX", kit.REPO)
    # see runner._child: harness path entries must not cover the world
    cwd_abs = os.path.abspath(os.getcwd())
    sys.path[:] = ["/nonexistent-verif-entry"] + [
        p for p in sys.path if p and not (cwd_abs + os.sep).startswith(os.path.abspath(p) + os.sep)
    ]


def history_child(root: str, lib_fixture: str | None, flags: list[str], steps: list[dict[str, Any]],
                  prelude: dict[str, Any] | None = None) -> list[dict[str, Any]]:
    """Runs in a forked child: the long-lived daemon over all steps."""
    w = World.__new__(World)
    w.root = root
    w.proj = os.path.join(root, "proj")
    w.lib = os.path.join(root, "lib")
    w.now_s = 0.0
    w.sim_advance_s = 0.0
    w.files = {}
    w.mt = {}
    os.makedirs(w.proj, exist_ok=True)
    os.makedirs(w.lib, exist_ok=True)
    if lib_fixture:
        import shutil

        shutil.copy(os.path.join(kit.REPO, "test-data", "unit", "fixtures", lib_fixture), os.path.join(w.lib, "builtins.pyi"))
        os.utime(os.path.join(w.lib, "builtins.pyi"), (999_999_000, 999_999_000))
    os.chdir(w.proj)
    _setup_env(w.lib)
    if prelude and prelude.get("real_typeshed"):
        FIXTURES["on"] = False
        os.environ.pop("MYPYPATH", None)
        prelude = None
    server = None
    results = []
    if prelude:
        # batch run that leaves a fine-grained cache behind (older files), then the daemon loads it
        w.restore_files((prelude["files"], prelude["mt"]))
        import mypy.main as main_mod

        real = main_mod.process_options

        def po(*a: Any, **k: Any) -> Any:
            s, o = real(*a, **k)
            o.use_builtins_fixtures = True
            return s, o

        main_mod.process_options = po  # type: ignore[assignment]
        o_, e_ = io.StringIO(), io.StringIO()
        try:
            main_mod.main(args=list(prelude["argv"]), stdout=o_, stderr=e_, clean_exit=True)
        except SystemExit:
            pass
        main_mod.process_options = real  # type: ignore[assignment]
    for st in steps:
        w.restore_files((st["files"], st["mt"]))
        if server is None:
            server = _make_server(flags, root)
        results.append(_request(server, st["request"]))
        if "crash" in results[-1]:
            break
    return results


def fresh_child(proj: str, lib: str, flags: list[str], req: dict[str, Any]) -> dict[str, Any]:
    """Runs in a forked child: a brand-new daemon's first check on the files as they are."""
    os.chdir(proj)
    _setup_env(lib)
    clean = []
    skip = False
    for f in flags:
        if skip:
            skip = False
            continue
        if f == "--use-fine-grained-cache":
            continue
        if f == "--cache-dir":
            skip = True
            continue
        clean.append(f)
    server = _make_server(clean, os.path.dirname(proj))
    return _request(server, {"cmd": "check", "files": req["files"]})


def split(out: str) -> tuple[dict[str, list[str]], list[str]]:
    from sim import runner

    return runner.split_output(out)


def observable(r: dict[str, Any]) -> dict[str, Any]:
    per_file, other = split(r.get("out", ""))
    return {"status": r.get("status"), "per_file": per_file, "other": other, "err": r.get("err", ""),
            "error": r.get("error"), "crash": bool(r.get("crash"))}
