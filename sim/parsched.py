"""parsched: a seeded scheduler that owns every coordinator/worker interleaving of a
parallel (-n N) build, at store-op and message granularity.

The coordinator runs the shipped `mypy.main.main` -> `build.build(num_workers=N)` path in a
run child (sim/runner.py, installed through the `pre_hook` seam).  Workers are N *slots*
pre-forked by that child before the build starts (a process that holds an sqlite connection
is never forked); `mypy.build.subprocess.Popen` hands the worker's argv to a slot, which then
executes the shipped `mypy.build_worker.worker.main`.  Messages travel over the real AF_UNIX
sockets.  What is taken away from the OS is *who runs*:

  * a worker parks at a GATE before every cache-store op and before every send(); it writes
    one line to its report pipe and blocks on its go pipe;
  * the CONTROLLER replaces `mypy.build.ready_to_read`, i.e. it runs exactly when the
    coordinator would have blocked in select(): it waits for quiescence (every busy worker
    parked at a gate or idle), then draws ONE enabled action from the PRNG:
        step(i)      release worker i for one gated op
        deliver(S)   return the non-empty subset S of connections with a complete reply
    A worker whose next op writes to an sqlite shard on which another worker holds an
    uncommitted write is not enabled (simulated shard lock).
  * `free_workers.pop()` asks the PRNG as well.

Exactly one process runs between two decisions, so one decision list is one execution.
"""

from __future__ import annotations

import json
import os
import random
import select
import signal
import sys
import time
from typing import Any

from sim import kit, runner

MUTATING = ("write", "remove")


class Chooser:
    """PRNG-or-script source of decisions; records everything it decides."""

    def __init__(self, seed: Any, script: list[int] | None) -> None:
        self.rng = random.Random(str(seed))
        self.script = list(script) if script is not None else None
        self.pos = 0
        self.decisions: list[int] = []

    def choose(self, n: int, weights: list[float] | None = None) -> int:
        assert n > 0
        if self.script is not None and self.pos < len(self.script):
            v = self.script[self.pos] % n
        elif self.script is not None and self.pos >= len(self.script):
            v = 0  # minimised scripts fall back to the default choice
        elif weights is not None:
            v = self.rng.choices(range(n), weights)[0]
        else:
            v = self.rng.randrange(n)
        self.pos += 1
        self.decisions.append(v)
        return v


# --------------------------------------------------------------------------
# worker slot


def _slot_main(idx: int, cmd_r: int, report_w: int, go_r: int, spec: dict[str, Any]) -> None:
    """Body of a pre-forked worker slot (never returns)."""
    code = 0
    try:
        data = b""
        while not data.endswith(b"\n"):
            b = os.read(cmd_r, 65536)
            if not b:
                os._exit(0)  # build never started this worker
            data += b
        argv = json.loads(data.decode())
        import mypy.build_worker.worker as worker
        import mypy.ipc as ipc

        par = spec["par"]
        armed = {"on": False}

        def report(ev: dict[str, Any]) -> None:
            os.write(report_w, (json.dumps(ev) + "\n").encode())

        def gate(kind: str, name: str, ctx: str = "") -> None:
            if not armed["on"]:
                return
            report({"ev": "gate", "kind": kind, "name": name, "ctx": ctx})
            b = os.read(go_r, 1)
            if not b:
                os._exit(0)  # controller is gone

        clock = runner.SimClock(int(spec.get("clock_start_ns", 2_000_000_000 * 10**9)) + (idx + 1) * 10**6, int(spec.get("clock_step_ns", 50_000_000)))
        wf = (par.get("worker_faults") or {}).get(str(idx)) or {}
        state = runner.StoreState(clock, runner.FaultPlan(wf), gate=gate)
        state.log_path = par.get("worker_oplog_prefix", "") + f"{idx}.json" if par.get("worker_oplog_prefix") else None
        runner.install_store_shims(state)
        real_send = worker.send
        real_ready = worker.ready_to_read

        def gated_send(conn: Any, msg: Any) -> None:
            gate("send", type(msg).__name__)
            real_send(conn, msg)

        def ready(conns: Any, timeout: Any = None) -> Any:
            armed["on"] = True
            report({"ev": "idle"})
            return real_ready(conns, timeout)

        worker.send = gated_send  # type: ignore[assignment]
        worker.ready_to_read = ready  # type: ignore[assignment]
        worker.WORKER_CONNECTION_TIMEOUT = 600  # type: ignore[misc]
        worker.WORKER_IDLE_TIMEOUT = 600  # type: ignore[misc]
        try:
            worker.main(argv)
        finally:
            state.flush_log()
    except SystemExit as e:
        code = int(e.code or 0) if isinstance(e.code, int) or e.code is None else 1
    except BaseException:
        import traceback

        traceback.print_exc()
        code = 71
    finally:
        try:
            sys.stdout.flush()
            sys.stderr.flush()
        except Exception:
            pass
        os._exit(code)


class Slot:
    def __init__(self, idx: int, spec: dict[str, Any]) -> None:
        self.idx = idx
        cmd_r, self.cmd_w = os.pipe()
        self.report_r, report_w = os.pipe()
        go_r, self.go_w = os.pipe()
        sys.stdout.flush()
        sys.stderr.flush()
        self.pid = os.fork()
        if self.pid == 0:
            os.close(self.cmd_w)
            os.close(self.report_r)
            os.close(self.go_w)
            _slot_main(idx, cmd_r, report_w, go_r, spec)
        os.close(cmd_r)
        os.close(report_w)
        os.close(go_r)
        self.buf = b""
        self.dead = False
        self.exit_status: int | None = None

    def read_event(self, timeout: float) -> dict[str, Any] | None:
        """Next report line; None on EOF (the worker process is gone)."""
        deadline = time.monotonic() + timeout
        while b"\n" not in self.buf:
            left = deadline - time.monotonic()
            if left <= 0:
                raise kit.HarnessError(f"worker {self.idx} made no progress for {timeout}s (real time)")
            r, _, _ = select.select([self.report_r], [], [], left)
            if not r:
                continue
            b = os.read(self.report_r, 65536)
            if not b:
                self.dead = True
                return None
            self.buf += b
        line, self.buf = self.buf.split(b"\n", 1)
        return json.loads(line.decode())  # type: ignore[no-any-return]

    def release(self) -> None:
        os.write(self.go_w, b"g")


class TimeoutExpired(Exception):
    pass


class FakePopen:
    def __init__(self, slot: Slot, command: list[str]) -> None:
        self.slot = slot
        self.pid = slot.pid
        argv = [a for a in command if a.startswith("--status-file=") or a.startswith("--options-data=")]
        os.write(slot.cmd_w, (json.dumps(argv) + "\n").encode())

    def wait(self, timeout: float | None = None) -> int:
        deadline = time.monotonic() + (timeout if timeout is not None else 600)
        while True:
            if self.slot.exit_status is not None:
                return self.slot.exit_status
            pid, status = os.waitpid(self.pid, os.WNOHANG)
            if pid:
                self.slot.exit_status = os.waitstatus_to_exitcode(status)
                return self.slot.exit_status
            if time.monotonic() > deadline:
                raise TimeoutExpired()
            time.sleep(0.002)


class FakeSubprocess:
    TimeoutExpired = TimeoutExpired

    def __init__(self, ctl: "Controller") -> None:
        self.ctl = ctl
        self.next = 0

    def Popen(self, command: list[str], env: Any = None, **kw: Any) -> FakePopen:  # noqa: N802
        slot = self.ctl.slots[self.next]
        self.next += 1
        self.ctl.started += 1
        return FakePopen(slot, command)


# --------------------------------------------------------------------------
# controller (lives in the coordinator process)


class Controller:
    def __init__(self, spec: dict[str, Any]) -> None:
        self.spec = spec
        par = spec["par"]
        self.par = par
        self.n = int(par["workers"])
        self.chooser = Chooser(par.get("sched_seed", 0), par.get("script"))
        self.slots = [Slot(i, spec) for i in range(self.n)]
        self.started = 0
        self.requests = [0] * self.n  # non-empty SccRequestMessages sent to worker i
        self.idles = [0] * self.n  # idle notices read from worker i
        self.parked: list[dict[str, Any] | None] = [None] * self.n
        self.after_send = [False] * self.n  # worker was released through a send gate
        self.pending = [0] * self.n  # complete replies sitting in connection i
        self.dirty: list[set[int]] = [set() for _ in range(self.n)]  # uncommitted sqlite shards
        self.events: list[Any] = []
        self.reads: dict[str, list[tuple[int, int]]] = {}
        self.writes: dict[str, list[tuple[int, int]]] = {}
        self.invariant: list[Any] = []
        self.conn_index: dict[int, int] = {}
        self.steps = 0
        self.max_decisions = int(par.get("max_decisions", 20000))
        self.policy = par.get("policy") or {}
        self.num_shards = int(par.get("num_shards", 0))
        self.log_path = par.get("parlog_path")
        self.kill_all_at = par.get("kill_all_at_decision")
        self.probes: dict[str, int] = {}
        self.real_timeout = float(par.get("real_timeout_s", 60.0))

    # -- bookkeeping -----------------------------------------------------
    def probe(self, k: str, n: int = 1) -> None:
        self.probes[k] = self.probes.get(k, 0) + n

    def log(self, item: Any) -> None:
        self.events.append(item)
        if self.log_path:
            with open(self.log_path, "a") as f:
                f.write(json.dumps(item) + "\n")

    def busy(self, i: int) -> bool:
        return self.idles[i] < self.requests[i] + 1 and not self.slots[i].dead and self.requests[i] > 0

    def shard(self, name: str) -> int:
        if self.num_shards <= 1:
            return 0
        from mypy.util import hash_path_stem

        return int(hash_path_stem(name) % self.num_shards)

    def note_passed(self, i: int, g: dict[str, Any]) -> None:
        """Worker i has executed the op it was parked at."""
        kind, name = g["kind"], g["name"]
        if kind in MUTATING and self.par.get("store") == "sqlite":
            self.dirty[i].add(self.shard(name))
        elif kind == "commit":
            self.dirty[i].clear()
        elif kind == "commit_path":
            self.dirty[i].discard(self.shard(name))
        if kind == "send":
            self.pending[i] += 1
        seq = len(self.events)
        if kind == "read":
            if g.get("ctx") == "partial_package_probe":
                self.probe("read_by_partial_package_probe")
            else:
                self.reads.setdefault(name, []).append((seq, i))
        if kind == "write":
            self.writes.setdefault(name, []).append((seq, i))
            # invariant: nobody else has already read this record in this run
            for rseq, r in self.reads.get(name, []):
                if r != i:
                    self.invariant.append({"kind": "read_before_write", "record": name, "reader": r, "writer": i})
                    break
            if any(w != i for _, w in self.writes[name][:-1]):
                self.probe("record_written_by_two_workers")

    def wait_quiescence(self) -> None:
        for i in range(self.n):
            if self.started <= i or self.slots[i].dead:
                continue
            while self.busy(i) and self.parked[i] is None:
                ev = self.slots[i].read_event(self.real_timeout)
                if ev is None:
                    self.log(["worker_died", i])
                    self.probe("worker_death_seen")
                    break
                if ev["ev"] == "idle":
                    self.idles[i] += 1
                    if self.dirty[i]:
                        self.probe("idle_with_uncommitted_shard")
                        self.dirty[i].clear()
                else:
                    self.parked[i] = ev

    def enabled_steps(self) -> list[int]:
        out = []
        for i in range(self.n):
            g = self.parked[i]
            if g is None:
                continue
            if g["kind"] in MUTATING and self.par.get("store") == "sqlite":
                s = self.shard(g["name"])
                if any(s in self.dirty[j] for j in range(self.n) if j != i):
                    self.probe("step_blocked_by_shard_lock")
                    continue
            out.append(i)
        return out

    # -- the seam: replaces mypy.build.ready_to_read ---------------------
    def ready_to_read(self, conns: Any, timeout: Any = None) -> list[int]:
        for i, c in enumerate(conns):
            self.conn_index[id(c)] = i
        while True:
            self.wait_quiescence()
            if len(self.chooser.decisions) >= self.max_decisions:
                raise kit.HarnessError("decision cap reached (possible livelock)")
            if self.kill_all_at is not None and len(self.chooser.decisions) >= self.kill_all_at:
                self.log(["kill_all"])
                os.killpg(os.getpgrp(), signal.SIGKILL)
            steps = self.enabled_steps()
            deliverable = [i for i in range(self.n) if self.pending[i] > 0]
            dead = [i for i in range(self.n) if self.slots[i].dead and self.requests[i] > 0 and self.idles[i] < self.requests[i] + 1]
            if dead and not deliverable:
                # a closed connection is readable: the coordinator will see the disconnect
                self.log(["deliver_eof", dead])
                return dead
            if not steps and not deliverable:
                blocked = [i for i in range(self.n) if self.parked[i] is not None]
                self.log(["deadlock", blocked])
                raise DeadlockError(f"no enabled action: parked={self.parked} pending={self.pending} dirty={self.dirty}")
            actions: list[tuple[str, Any]] = [("step", i) for i in steps]
            weights = []
            starve = set(self.policy.get("starve", []))
            for _, i in actions:
                weights.append(0.03 if i in starve else 1.0)
            if deliverable:
                actions.append(("deliver", None))
                w_del = float(self.policy.get("deliver_weight", 1.0)) * max(1, len(steps))
                if self.policy.get("hold_replies") and steps:
                    w_del = 0.02
                weights.append(w_del)
            k = self.chooser.choose(len(actions), weights)
            act, arg = actions[k]
            if act == "step":
                g = self.parked[arg]
                assert g is not None
                self.parked[arg] = None
                self.log(["step", arg, g["kind"], g["name"]])
                self.steps += 1
                self.slots[arg].release()
                self.note_passed(arg, g)
                if len(steps) > 1:
                    self.probe("choice_between_parked_workers")
                continue
            # deliver a non-empty subset, in drawn order
            if len(deliverable) > 1:
                self.probe("two_replies_ready_at_once")
                nsub = 1 + self.chooser.choose(len(deliverable))
                order = list(deliverable)
                sub = []
                for _ in range(nsub):
                    j = self.chooser.choose(len(order))
                    sub.append(order.pop(j))
            else:
                sub = list(deliverable)
            for i in sub:
                self.pending[i] -= 1
            self.log(["deliver", sub])
            return sub

    # -- called from the wrapped mypy.build.send --------------------------
    def on_send(self, conn: Any, msg: Any) -> None:
        i = self.conn_index.get(id(conn))
        if i is None:
            return
        if type(msg).__name__ == "SccRequestMessage" and msg.scc_ids:
            self.requests[i] += 1
            self.log(["request", i, sorted(msg.scc_ids), sorted(msg.mod_data)])
            self.probe("batches_sent")

    def register_workers(self, workers: Any) -> None:
        for i, w in enumerate(workers):
            if getattr(w, "connected", False):
                self.conn_index[id(w.conn)] = i

    def summary(self) -> dict[str, Any]:
        trace = [[e[0]] + ([e[1], e[2], runner.record_kind(e[3]) if e[0] == "step" else ""] if e[0] == "step" else [e[1]]) for e in self.events if e[0] in ("step", "deliver")]
        assign = [[e[1], e[3]] for e in self.events if e[0] == "request"]
        return {
            "decisions": self.chooser.decisions,
            "n_decisions": len(self.chooser.decisions),
            "steps": self.steps,
            "events": self.events,
            "trace_digest": kit.digest(trace),
            "assignment_digest": kit.digest([assign, [e[1] for e in self.events if e[0] == "deliver"]]),
            "invariant": self.invariant,
            "probes": self.probes,
            "workers_used": sorted({e[1] for e in self.events if e[0] == "request"}),
        }


class DeadlockError(Exception):
    pass


class RandSet(set):  # type: ignore[type-arg]
    """free_workers whose pop() is a scheduler decision."""

    chooser: Chooser | None = None
    ctl: Controller | None = None

    def pop(self) -> Any:  # type: ignore[override]
        items = sorted(self)
        if len(items) > 1 and self.ctl is not None:
            self.ctl.probe("free_worker_choice")
        assert self.chooser is not None
        i = items[self.chooser.choose(len(items))] if len(items) > 1 else items[0]
        self.discard(i)
        return i


_controller: Controller | None = None


def install(spec: dict[str, Any], state: runner.StoreState) -> None:
    """pre_hook of sim/runner.py for a parallel run (executes in the run child)."""
    global _controller
    import mypy.build as build

    ctl = Controller(spec)
    _controller = ctl
    build.subprocess = FakeSubprocess(ctl)  # type: ignore[attr-defined]
    build.ready_to_read = ctl.ready_to_read  # type: ignore[assignment]
    build.WORKER_START_TIMEOUT = 120  # type: ignore[misc]
    build.WORKER_CONNECTION_TIMEOUT = 600  # type: ignore[misc]
    build.WORKER_DONE_TIMEOUT = 600  # type: ignore[misc]
    real_send = build.send

    def send(conn: Any, msg: Any) -> None:
        ctl.on_send(conn, msg)
        real_send(conn, msg)

    build.send = send  # type: ignore[assignment]
    real_submit = build.BuildManager.submit_to_workers

    def submit_to_workers(self: Any, graph: Any, sccs: Any = None) -> None:
        ctl.register_workers(self.workers)
        if not isinstance(self.free_workers, RandSet):
            rs = RandSet(self.free_workers)
            rs.chooser = ctl.chooser
            rs.ctl = ctl
            self.free_workers = rs
        real_submit(self, graph, sccs)

    build.BuildManager.submit_to_workers = submit_to_workers  # type: ignore[method-assign]
    spec["_post"] = ["sim.parsched", "collect"]


def collect() -> dict[str, Any]:
    """Called by the runner after main() returned: scheduler summary + reap the slots."""
    ctl = _controller
    assert ctl is not None
    out = ctl.summary()
    for s in ctl.slots:
        try:
            os.close(s.cmd_w)
        except OSError:
            pass
        try:
            os.close(s.go_w)
        except OSError:
            pass
    deadline = time.monotonic() + 10
    for s in ctl.slots:
        while s.exit_status is None and time.monotonic() < deadline:
            try:
                pid, status = os.waitpid(s.pid, os.WNOHANG)
            except ChildProcessError:
                s.exit_status = -1
                break
            if pid:
                s.exit_status = os.waitstatus_to_exitcode(status)
            else:
                time.sleep(0.002)
        if s.exit_status is None:
            try:
                os.kill(s.pid, signal.SIGKILL)
                os.waitpid(s.pid, 0)
            except OSError:
                pass
            s.exit_status = -9
    out["worker_exit"] = [s.exit_status for s in ctl.slots]
    return out
