"""A pristine interpreter started with a chosen PYTHONHASHSEED that imports mypy once and
then serves run requests (JSON lines on stdin -> JSON lines on stdout); every run is a fork
of this process (sim/runner.py), so no build ever executes in the zygote itself."""

from __future__ import annotations

import json
import os
import sys

HERE = os.path.dirname(os.path.abspath(__file__))
sys.path.insert(0, os.path.dirname(HERE))
_alt = os.environ.get("VERIF_REPO")
if _alt and os.path.isdir(os.path.join(_alt, "mypy")):
    sys.path.insert(0, _alt)


def main() -> None:
    import mypy.build  # noqa: F401
    import mypy.dmypy_server  # noqa: F401
    import mypy.main  # noqa: F401

    from sim import kit, runner

    out = os.fdopen(os.dup(1), "w")
    os.dup2(2, 1)
    out.write(json.dumps({"ready": True, "hashseed": os.environ.get("PYTHONHASHSEED"), "probe": hash("verif") & 0xFFFF}) + "\n")
    out.flush()
    for line in sys.stdin:
        line = line.strip()
        if not line:
            continue
        req = json.loads(line)
        if req.get("quit"):
            break
        try:
            res = runner.run(req["spec"], timeout=req.get("timeout", 120.0))
            out.write(json.dumps({"ok": True, "res": res}, default=str) + "\n")
        except kit.HarnessError as e:
            out.write(json.dumps({"ok": False, "error": str(e)}) + "\n")
        out.flush()
    kit.cleanup_scratch()


if __name__ == "__main__":
    main()
