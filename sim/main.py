"""Entry point: ./check <PROPERTY> [--tier quick|thorough] [--replay FILE]"""

from __future__ import annotations

import argparse
import importlib
import os
import sys
import traceback

HERE = os.path.dirname(os.path.abspath(__file__))
VERIF = os.path.dirname(HERE)


def main() -> int:
    if os.environ.get("PYTHONHASHSEED") != "0":
        # One fixed hash seed for the harness and every forked child (C10 varies it itself).
        os.environ["PYTHONHASHSEED"] = "0"
        os.execv(sys.executable, [sys.executable] + sys.argv)
    sys.path.insert(0, VERIF)
    alt = os.environ.get("VERIF_REPO")
    if alt and os.path.isdir(os.path.join(alt, "mypy")):
        # development aid: run the checks against a scratch worktree (e.g. with a seeded change
        # applied) without touching /repo; registered commands never set this
        sys.path.insert(0, alt)
    ap = argparse.ArgumentParser()
    ap.add_argument("prop")
    ap.add_argument("--tier", default=os.environ.get("VERIF_TIER", "quick"))
    ap.add_argument("--replay", default=None)
    args = ap.parse_args()
    if args.tier not in ("quick", "thorough"):
        args.tier = "quick"
    os.environ["PYTHON_MYPY_VERIF"] = "1"
    from sim import kit

    print(f"VERIF_SEED={kit.seed()} property={args.prop} tier={args.tier}", flush=True)
    try:
        import mypy  # noqa: F401

        print(f"mypy under test: {os.path.dirname(mypy.__file__)}", flush=True)

        mod = importlib.import_module("checks." + args.prop.lower())
        if args.replay:
            return int(mod.replay(args.replay))
        return int(mod.run(args.tier))
    except kit.HarnessError as e:
        print("HARNESS-ERROR:", e, file=sys.stderr, flush=True)
        return kit.EXIT_HARNESS
    except Exception:
        traceback.print_exc()
        print("HARNESS-ERROR: unexpected exception", file=sys.stderr, flush=True)
        return kit.EXIT_HARNESS
    finally:
        kit.cleanup_scratch()


if __name__ == "__main__":
    sys.exit(main())
