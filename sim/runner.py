"""A mypy *run* as a simulated process.

`run(spec)` forks a child of a pristine (never built) interpreter; the child installs
the seams below and executes the shipped CLI entry `mypy.main.main`.  Only what the
child put on the (tmpfs) filesystem or into a committed sqlite transaction survives.

Seams (all by replacing module attributes, nothing in /repo changes):
  * cache store   -> StoreShim subclasses of both real store classes: every
                     write/read/remove/commit/commit_path/getmtime is numbered, logged,
                     and may fail, be torn, or be the crash point (os._exit(137))
  * clock         -> mypy.metastore.time.time() and the mtime of cache files come
                     from the SimClock, which advances by a fixed step per store op
  * typeshed      -> use_builtins_fixtures + lib-stub (process_options wrapped)
"""

from __future__ import annotations

import errno
import io
import json
import os
import sys
from typing import Any

from sim import kit

CRASH_EXIT = 137


class SimClock:
    def __init__(self, start_ns: int, step_ns: int) -> None:
        self.now_ns = start_ns
        self.step_ns = step_ns

    def tick(self) -> None:
        self.now_ns += self.step_ns

    def time(self) -> float:
        return self.now_ns / 1e9


class FaultPlan:
    """Decides, per numbered store op, what happens.  Pure function of the spec."""

    def __init__(self, spec: dict[str, Any]) -> None:
        self.crash_before = spec.get("crash_before")  # op number
        self.crash_after = spec.get("crash_after")
        self.torn_at = spec.get("torn_at")  # op number of a write that is torn (then crash)
        self.fail_ops = {int(k): v for k, v in (spec.get("fail_ops") or {}).items()}
        self.fail_names = set(spec.get("fail_names") or [])  # record names whose writes fail
        self.fail_all_writes = bool(spec.get("fail_all_writes"))
        self.fail_kinds = set(spec.get("fail_kinds") or [])  # e.g. {"meta_ex"}: writes of this record kind fail
        self.role = spec.get("role", "main")


def record_kind(name: str) -> str:
    for k in ("meta_ex", "meta", "data", "deps"):
        if f".{k}." in name:
            return k
    return "other"


class _TimeShim:
    def __init__(self, clock: SimClock) -> None:
        self._clock = clock

    def time(self) -> float:
        return self._clock.time()

    def __getattr__(self, name: str) -> Any:
        import time as _t

        return getattr(_t, name)


class StoreState:
    """Shared by the shim classes of one process."""

    def __init__(self, clock: SimClock, plan: FaultPlan, gate: Any = None) -> None:
        self.clock = clock
        self.plan = plan
        self.n = 0
        self.log: list[list[Any]] = []
        self.fired: dict[str, int] = {}
        self.gate = gate  # callable(kind, name) used by parsched to park the process
        self.log_path: str | None = None

    def fire(self, k: str) -> None:
        self.fired[k] = self.fired.get(k, 0) + 1

    def flush_log(self) -> None:
        if self.log_path:
            try:
                with open(self.log_path, "w") as f:
                    json.dump({"log": self.log, "fired": self.fired}, f)
            except OSError:
                pass

    def crash(self, why: str) -> None:
        self.fire("crash_" + why)
        self.flush_log()
        try:
            sys.stdout.flush()
            sys.stderr.flush()
        except Exception:
            pass
        os._exit(CRASH_EXIT)

    def begin(self, kind: str, name: str) -> tuple[int, Any]:
        """Number the op, park at the gate, apply crash-before; return (number, fail-kind)."""
        self.n += 1
        n = self.n
        self.clock.tick()
        if self.gate is not None:
            ctx = ""
            if kind in ("read", "getmtime"):
                # call-site tag: a peek at the parent package of a missing submodule is not a
                # dependency load (build.in_partial_package creates a temporary State)
                f = sys._getframe(1)
                depth = 0
                while f is not None and depth < 40:
                    if f.f_code.co_name == "in_partial_package":
                        ctx = "partial_package_probe"
                        break
                    f = f.f_back
                    depth += 1
            self.gate(kind, name, ctx)
        self.log.append([n, kind, name])
        p = self.plan
        if p.crash_before == n:
            self.crash("before_" + kind)
        fail = p.fail_ops.get(n)
        if kind == "write" and fail is None:
            if p.fail_all_writes or name in p.fail_names or record_kind(name) in p.fail_kinds:
                fail = "enospc"
        return n, fail

    def end(self, n: int, kind: str) -> None:
        if self.plan.crash_after == n:
            self.crash("after_" + kind)


def install_store_shims(state: StoreState) -> None:
    import mypy.build as build
    import mypy.metastore as ms

    ms.time = _TimeShim(state.clock)  # type: ignore[attr-defined]

    class FsShim(ms.FilesystemMetadataStore):  # type: ignore[misc]
        def getmtime(self, name: str) -> float:
            n, fail = state.begin("getmtime", name)
            if fail:
                state.fire("fail_getmtime")
                raise OSError(errno.EIO, "injected getmtime failure")
            r = super().getmtime(name)
            state.end(n, "getmtime")
            return r

        def read(self, name: str) -> bytes:
            n, fail = state.begin("read", name)
            if fail:
                state.fire("fail_read")
                raise OSError(errno.EIO, "injected read failure")
            r = super().read(name)
            state.end(n, "read")
            return r

        def write(self, name: str, data: bytes, mtime: float | None = None) -> bool:
            n, fail = state.begin("write", name)
            if state.plan.torn_at == n and self.cache_dir_prefix:
                # the process dies while the temp file is half written
                path = os.path.join(self.cache_dir_prefix, name)
                os.makedirs(os.path.dirname(path), exist_ok=True)
                with open(path + ".torn" + ms.random_string(), "wb") as f:
                    f.write(data[: max(1, len(data) // 2)])
                state.crash("torn_write")
            if fail:
                # go through the store's own error path: os.replace raises
                state.fire("fail_write")
                real_replace = os.replace

                def failing_replace(a: Any, b: Any, **k: Any) -> None:
                    raise OSError(errno.ENOSPC, "No space left on device (injected)")

                os.replace = failing_replace  # type: ignore[assignment]
                try:
                    r = super().write(name, data, mtime)
                finally:
                    os.replace = real_replace
                assert r is False
                state.end(n, "write")
                return r
            r = super().write(name, data, mtime)
            if r and mtime is None and self.cache_dir_prefix:
                t = state.clock.time()
                os.utime(os.path.join(self.cache_dir_prefix, name), times=(t, t))
            state.end(n, "write")
            return r

        def remove(self, name: str) -> None:
            n, fail = state.begin("remove", name)
            if fail:
                state.fire("fail_remove")
                raise OSError(errno.EIO, "injected remove failure")
            super().remove(name)
            state.end(n, "remove")

        def commit(self) -> None:
            n, fail = state.begin("commit", "")
            super().commit()
            state.end(n, "commit")

        def commit_path(self, name: str) -> None:
            # The base class routes commit_path to commit(); number it once.
            n, fail = state.begin("commit_path", name)
            ms.FilesystemMetadataStore.commit(self)
            state.end(n, "commit_path")

    class SqlShim(ms.SqliteMetadataStore):  # type: ignore[misc]
        def getmtime(self, name: str) -> float:
            n, fail = state.begin("getmtime", name)
            if fail:
                state.fire("fail_getmtime")
                raise OSError(errno.EIO, "injected getmtime failure")
            r = super().getmtime(name)
            state.end(n, "getmtime")
            return r

        def read(self, name: str) -> bytes:
            n, fail = state.begin("read", name)
            if fail:
                state.fire("fail_read")
                raise OSError(errno.EIO, "injected read failure")
            r = super().read(name)
            state.end(n, "read")
            return r

        def write(self, name: str, data: bytes, mtime: float | None = None) -> bool:
            n, fail = state.begin("write", name)
            if fail and self.dbs:
                # through the store's own error path: the statement raises OperationalError
                state.fire("fail_write")
                import sqlite3

                idx = self._shard_index(name)
                real = self.dbs[idx]

                class FailingDb:
                    def execute(self, *a: Any, **k: Any) -> Any:
                        raise sqlite3.OperationalError("database or disk is full (injected)")

                self.dbs[idx] = FailingDb()  # type: ignore[call-overload]
                try:
                    r = super().write(name, data, mtime)
                finally:
                    self.dbs[idx] = real
                assert r is False
                state.end(n, "write")
                return r
            r = super().write(name, data, mtime)
            state.end(n, "write")
            return r

        def remove(self, name: str) -> None:
            n, fail = state.begin("remove", name)
            if fail:
                state.fire("fail_remove")
                raise OSError(errno.EIO, "injected remove failure")
            super().remove(name)
            state.end(n, "remove")

        def commit(self) -> None:
            n, fail = state.begin("commit", ",".join(str(i) for i in sorted(self.dirty_shards)))
            if fail:
                state.fire("fail_commit")
                import sqlite3

                raise sqlite3.OperationalError("database or disk is full (injected)")
            super().commit()
            state.end(n, "commit")

        def commit_path(self, name: str) -> None:
            n, fail = state.begin("commit_path", name)
            if fail:
                state.fire("fail_commit")
                import sqlite3

                raise sqlite3.OperationalError("database or disk is full (injected)")
            super().commit_path(name)
            state.end(n, "commit_path")

    build.FilesystemMetadataStore = FsShim  # type: ignore[misc]
    build.SqliteMetadataStore = SqlShim  # type: ignore[misc]


def install_fixture_shims() -> None:
    import mypy.main as main_mod

    real_process_options = main_mod.process_options

    def process_options(*a: Any, **k: Any) -> Any:
        sources, options = real_process_options(*a, **k)
        options.use_builtins_fixtures = True
        return sources, options

    main_mod.process_options = process_options  # type: ignore[assignment]


def _child(spec: dict[str, Any]) -> dict[str, Any]:
    """Runs in the forked child."""
    import mypy.build as build
    import mypy.main as main_mod

    os.chdir(spec["cwd"])
    # mypy silences errors in modules found under an entry of the running interpreter's
    # sys.path ("site-packages"); the harness's own path entries must never cover the world.
    cwd_abs = os.path.abspath(spec["cwd"])
    sys.path[:] = ["/nonexistent-verif-entry"] + [
        p for p in sys.path if p and not (cwd_abs + os.sep).startswith(os.path.abspath(p) + os.sep)
    ]
    for k, v in (spec.get("env") or {}).items():
        if v is None:
            os.environ.pop(k, None)
        else:
            os.environ[k] = v
    os.environ.setdefault("MYPY_TEST_PREFIX", kit.REPO)
    clock = SimClock(int(spec.get("clock_start_ns", 2_000_000_000 * 10**9)), int(spec.get("clock_step_ns", 50_000_000)))
    plan = FaultPlan(spec.get("faults") or {})
    state = StoreState(clock, plan)
    state.log_path = spec.get("oplog_path")
    install_store_shims(state)
    if spec.get("fixtures", True):
        install_fixture_shims()
    pre = spec.get("pre_hook")
    if pre:
        # a (module, function) pair executed before main; used by checks for extra seams
        import importlib

        getattr(importlib.import_module(pre[0]), pre[1])(spec, state)
    captured: dict[str, Any] = {}
    real_build = build.build
    # texts of messages reported with only_once=True (for the known-finding classifier)
    import mypy.errors as errors_mod

    once_texts: set[str] = set()
    real_info_init = errors_mod.ErrorInfo.__init__

    def info_init(self: Any, *a: Any, **k: Any) -> None:
        real_info_init(self, *a, **k)
        if getattr(self, "only_once", False):
            once_texts.add(f"{self.severity}: {self.message}")

    errors_mod.ErrorInfo.__init__ = info_init  # type: ignore[method-assign]

    def build_wrapper(*a: Any, **k: Any) -> Any:
        if spec.get("alt_lib_path") and len(a) < 3 and "alt_lib_path" not in k:
            k["alt_lib_path"] = spec["alt_lib_path"]
        try:
            res = real_build(*a, **k)
        except BaseException as e:
            mgr = getattr(e, "manager", None)
            raise
        captured["rechecked"] = sorted(res.manager.rechecked_modules)
        captured["stale"] = sorted(res.manager.stale_modules)
        captured["modules"] = sorted(res.manager.modules)
        captured["graph"] = sorted(res.graph)
        captured["stats"] = {
            k2: v for k2, v in res.manager.stats.items() if k2 in ("fresh_metas", "fresh_trees")
        }
        return res

    build.build = build_wrapper  # type: ignore[assignment]
    main_mod.build.build = build_wrapper  # type: ignore[attr-defined]
    # builds executed earlier in this same interpreter (C10: in-process history)
    pre_results = []
    for pb in spec.get("pre_builds") or []:
        pre_results.append(_pre_build(pb))
    os.chdir(spec["cwd"])
    if spec.get("pre_builds"):
        # the build under test starts at the same simulated instant as in a pristine process
        clock.now_ns = int(spec.get("clock_start_ns", 2_000_000_000 * 10**9))
        state.n = 0
        state.log.clear()
    if spec.get("listdir_seed") is not None:
        _install_listdir_permutation(spec["listdir_seed"])
    out, err = io.StringIO(), io.StringIO()
    code: Any = 0
    tb = None
    try:
        main_mod.main(args=list(spec["argv"]), stdout=out, stderr=err, clean_exit=True)
    except SystemExit as e:
        code = e.code if e.code is not None else 0
    except BaseException as e:
        import traceback

        code = "deadlock" if type(e).__name__ == "DeadlockError" else "exception"
        tb = traceback.format_exc()
    state.flush_log()
    post = spec.get("_post")
    if post:
        import importlib

        try:
            captured["par"] = getattr(importlib.import_module(post[0]), post[1])()
        except BaseException:
            import traceback

            captured["par_error"] = traceback.format_exc()
    return {
        "status": code,
        "stdout": out.getvalue(),
        "stderr": err.getvalue(),
        "traceback": tb,
        "oplog": state.log,
        "fired": state.fired,
        "clock_end_ns": clock.now_ns,
        "only_once": sorted(once_texts),
        "pre_results": pre_results,
        **captured,
    }


def _pre_build(pb: dict[str, Any]) -> Any:
    """One earlier build inside the same interpreter: CLI main, mypy.api.run, or a daemon Server."""
    import mypy.main as main_mod

    os.chdir(pb["cwd"])
    kind = pb.get("kind", "main")
    o, e = io.StringIO(), io.StringIO()
    try:
        if kind == "main":
            try:
                main_mod.main(args=list(pb["argv"]), stdout=o, stderr=e, clean_exit=True)
                return ["main", 0]
            except SystemExit as ex:
                return ["main", ex.code]
        if kind == "api":
            import mypy.api

            # (api.run goes through the wrapped process_options as well)
            r = mypy.api.run(list(pb["argv"]))
            return ["api", r[2]]
        if kind == "daemon":
            import mypy.dmypy_server as ds
            from mypy.find_sources import create_source_list

            options = ds.process_start_options(pb.get("flags", []), allow_sources=False)
            options.use_builtins_fixtures = True
            server = ds.Server(options, os.path.join(pb["cwd"], ".dmypy-pre.json"))
            sources = create_source_list(pb["files"], options, server.fscache)
            r = server.check(sources, export_types=False, is_tty=False, terminal_width=80)
            del server
            return ["daemon", r.get("status")]
    except BaseException as ex:  # noqa: BLE001 - an earlier build may fail in any way
        return [kind, "raised " + type(ex).__name__]
    return [kind, None]


def _install_listdir_permutation(seed: Any) -> None:
    import random

    import mypy.fscache as fsc

    real = fsc.FileSystemCache.listdir
    rng = random.Random(str(seed))

    def listdir(self: Any, path: str) -> list[str]:
        res = list(real(self, path))
        rng.shuffle(res)
        return res

    fsc.FileSystemCache.listdir = listdir  # type: ignore[method-assign]


def run(spec: dict[str, Any], timeout: float = 120.0) -> dict[str, Any]:
    """Execute one simulated run; returns the child's result or a 'crashed' record."""
    oplog_path = spec.get("oplog_path")
    if oplog_path and os.path.exists(oplog_path):
        os.unlink(oplog_path)
    co = spec.get("child_output")
    if co and os.path.exists(co):
        os.unlink(co)
    res = kit.fork_call(
        _child, spec, timeout=timeout, output_path=spec.get("child_output"), new_group=True
    )
    if isinstance(res, kit.ChildDied):
        log: dict[str, Any] = {}
        if oplog_path and os.path.exists(oplog_path):
            try:
                with open(oplog_path) as f:
                    log = json.load(f)
            except (OSError, ValueError):
                log = {}
        if res.timed_out:
            return {"status": "timeout", "stdout": "", "stderr": res.output, "oplog": log.get("log", []), "fired": log.get("fired", {})}
        return {
            "status": "crashed" if res.exit_code == CRASH_EXIT else f"died({res.exit_code})",
            "stdout": "",
            "stderr": res.output,
            "oplog": log.get("log", []),
            "fired": log.get("fired", {}),
        }
    if co and os.path.exists(co):
        try:
            with open(co, errors="replace") as f:
                res["leaked"] = f.read()[-6000:]
        except OSError:
            pass
    return res


# --------------------------------------------------------------------------
# output comparison


def split_output(stdout: str) -> tuple[dict[str, list[str]], list[str]]:
    """Diagnostics grouped per file (order inside a file kept) + the other lines."""
    per_file: dict[str, list[str]] = {}
    other: list[str] = []
    cur: str | None = None
    for line in stdout.splitlines():
        head = line.split(":", 1)[0]
        if ":" in line and (head.endswith(".py") or head.endswith(".pyi")) and " " not in head:
            per_file.setdefault(head, []).append(line)
            cur = head
        elif line.startswith(" ") and cur is not None:
            per_file[cur].append(line)  # --pretty continuation / context lines
        else:
            other.append(line)
            cur = None
    return per_file, other


def observable(res: dict[str, Any]) -> dict[str, Any]:
    per_file, other = split_output(res.get("stdout", ""))
    return {
        "status": res.get("status"),
        "per_file": per_file,
        "other": other,
        "stderr": res.get("stderr", ""),
    }


def same_observable(a: dict[str, Any], b: dict[str, Any]) -> bool:
    return observable(a) == observable(b)


def first_difference(a: dict[str, Any], b: dict[str, Any]) -> dict[str, Any]:
    oa, ob = observable(a), observable(b)
    if oa["status"] != ob["status"]:
        return {"what": "status", "warm": oa["status"], "cold": ob["status"], "warm_out": a.get("stdout", "")[-1500:], "cold_out": b.get("stdout", "")[-1500:], "warm_err": a.get("stderr", "")[-800:]}
    for f in sorted(set(oa["per_file"]) | set(ob["per_file"])):
        if oa["per_file"].get(f) != ob["per_file"].get(f):
            return {"what": "file", "file": f, "warm": oa["per_file"].get(f), "cold": ob["per_file"].get(f)}
    if oa["other"] != ob["other"]:
        return {"what": "other", "warm": oa["other"], "cold": ob["other"]}
    if oa["stderr"] != ob["stderr"]:
        return {"what": "stderr", "warm": oa["stderr"][-800:], "cold": ob["stderr"][-800:]}
    return {"what": "none"}


def strip_only_once(obs: dict[str, Any], texts: list[str]) -> tuple[dict[str, Any], int, bool]:
    """Remove every diagnostic line that carries an only_once message text."""
    removed = 0
    had_error = False
    per_file: dict[str, list[str]] = {}
    for f, lines in obs["per_file"].items():
        keep = []
        for l in lines:
            hit = None
            for t in texts:
                if f": {t}" in l:
                    hit = t
                    break
            if hit is None:
                keep.append(l)
            else:
                removed += 1
                had_error = had_error or hit.startswith("error")
        if keep:
            per_file[f] = keep
    other = obs["other"]
    if had_error:
        other = [l for l in other if not l.startswith("Found ")]
    return {"status": obs["status"], "per_file": per_file, "other": other, "stderr": obs["stderr"]}, removed, had_error


def differs_only_in_only_once(a: dict[str, Any], b: dict[str, Any]) -> bool:
    """True when runs a and b differ, and solely in lines carrying only_once messages."""
    texts = sorted(set(a.get("only_once", [])) | set(b.get("only_once", [])))
    if not texts:
        return False
    oa, ra, ea = strip_only_once(observable(a), texts)
    ob, rb, eb = strip_only_once(observable(b), texts)
    if ra + rb == 0:
        return False
    if ea or eb:
        if {oa["status"], ob["status"]} <= {0, 1}:
            oa["status"] = ob["status"] = None
    return oa == ob


def _subseq(a: list[str], b: list[str]) -> bool:
    it = iter(b)
    return all(any(x == y for y in it) for x in a)


def partial_output_before_blocker(a: dict[str, Any], b: dict[str, Any]) -> bool:
    """Both runs were aborted by a blocking error (exit 2, 'errors prevented further
    checking') and one run's diagnostics are, file by file, a sub-sequence of the other's:
    they only differ in how much had been reported before the build was abandoned."""
    oa, ob = observable(a), observable(b)
    if oa["status"] != 2 or ob["status"] != 2:
        return False
    texts = sorted(set(a.get("only_once", [])) | set(b.get("only_once", [])))
    if texts:
        # the two known classes compose: an only_once note may also sit in a different file
        oa = strip_only_once(oa, texts)[0]
        ob = strip_only_once(ob, texts)[0]
    marker = "errors prevented further checking"
    if not any(marker in l for l in oa["other"]) or not any(marker in l for l in ob["other"]):
        return False
    if oa["stderr"] != ob["stderr"]:
        return False
    files = set(oa["per_file"]) | set(ob["per_file"])
    a_in_b = all(_subseq(oa["per_file"].get(f, []), ob["per_file"].get(f, [])) for f in files)
    b_in_a = all(_subseq(ob["per_file"].get(f, []), oa["per_file"].get(f, [])) for f in files)
    return a_in_b or b_in_a


DEFINITION_NOTE = __import__("re").compile(r': note: ".*" defined (in ".*"|here)$')


def strip_definition_notes(obs: dict[str, Any]) -> tuple[dict[str, Any], int]:
    n = 0
    per_file: dict[str, list[str]] = {}
    for f, lines in obs["per_file"].items():
        keep = [l for l in lines if not DEFINITION_NOTE.search(l)]
        n += len(lines) - len(keep)
        if keep:
            per_file[f] = keep
    return dict(obs, per_file=per_file), n


def soft_difference(a: dict[str, Any], b: dict[str, Any]) -> str | None:
    """If runs a and b differ only by known, individually recorded classes of lines (known_findings.json),
    return the class name ('+'-joined when they compose), else None.

      only_once_note                 per-process only_once notes (duplicated / attached to another file)
      definition_note_not_cached     '"f" defined in "m"' notes need CallableType.definition, which is
                                     deliberately not serialised (mypy/types.py: "We don't serialize the
                                     definition (only used for error messages)"): absent when the callee's
                                     module comes from the cache
      partial_output_before_blocker  both runs aborted by a blocking error; one printed a prefix of the other
    """
    if same_observable(a, b):
        return None
    texts = sorted(set(a.get("only_once", [])) | set(b.get("only_once", [])))

    def reduced(classes: tuple[str, ...]) -> tuple[dict[str, Any], dict[str, Any], bool]:
        oa, ob = observable(a), observable(b)
        touched = True
        if "only_once_note" in classes:
            oa, ra, ea = strip_only_once(oa, texts)
            ob, rb, eb = strip_only_once(ob, texts)
            touched = touched and (ra + rb) > 0
            if (ea or eb) and {oa["status"], ob["status"]} <= {0, 1}:
                oa["status"] = ob["status"] = None
        if "definition_note_not_cached" in classes:
            oa, na = strip_definition_notes(oa)
            ob, nb = strip_definition_notes(ob)
            touched = touched and (na + nb) > 0
        return oa, ob, touched

    def blocker_prefix(oa: dict[str, Any], ob: dict[str, Any]) -> bool:
        if oa["status"] != 2 or ob["status"] != 2 or oa["stderr"] != ob["stderr"]:
            return False
        marker = "errors prevented further checking"
        if not any(marker in l for l in oa["other"]) or not any(marker in l for l in ob["other"]):
            return False
        files = set(oa["per_file"]) | set(ob["per_file"])
        a_in_b = all(_subseq(oa["per_file"].get(f, []), ob["per_file"].get(f, [])) for f in files)
        b_in_a = all(_subseq(ob["per_file"].get(f, []), oa["per_file"].get(f, [])) for f in files)
        return a_in_b or b_in_a

    combos: list[tuple[str, ...]] = [(), ("only_once_note",), ("definition_note_not_cached",), ("only_once_note", "definition_note_not_cached")]
    for classes in combos:
        if "only_once_note" in classes and not texts:
            continue
        oa, ob, touched = reduced(classes)
        if not touched:
            continue
        if classes and oa == ob:
            return "+".join(classes)
        if blocker_prefix(oa, ob):
            return "+".join(classes + ("partial_output_before_blocker",))
    return None
