"""Shared simulator kit: seed handling, scratch space, forked children, process
pool, ddmin, evidence and violation reporting.

Everything random derives from VERIF_SEED through `rng_for`; nothing here reads a
clock for any decision (wall time is only measured for the evidence file).
"""

from __future__ import annotations

import errno
import faulthandler
import hashlib
import json
import os
import pickle
import random
import select
import shutil
import signal
import sys
import tempfile
import time
import traceback
from concurrent.futures import ProcessPoolExecutor, as_completed
from typing import Any, Callable, Iterable

VERIF = os.path.dirname(os.path.dirname(os.path.abspath(__file__)))
REPO = os.environ.get("VERIF_REPO", "/repo")
EVIDENCE_DIR = os.environ.get("VERIF_EVIDENCE_DIR") or os.path.join(VERIF, "evidence")
REPLAY_DIR = os.environ.get("VERIF_REPLAY_DIR") or os.path.join(VERIF, "replays")
KNOWN_FINDINGS = os.path.join(VERIF, "known_findings.json")

EXIT_OK = 0
EXIT_VIOLATION = 1
EXIT_HARNESS = 3


class HarnessError(Exception):
    """The machinery itself failed (never reported as a property violation)."""


def seed() -> int:
    try:
        return int(os.environ.get("VERIF_SEED", "0"))
    except ValueError:
        return int(hashlib.sha256(os.environ["VERIF_SEED"].encode()).hexdigest()[:8], 16)


def rng_for(*parts: object) -> random.Random:
    """A PRNG that is a pure function of VERIF_SEED and the given labels."""
    key = ":".join([str(seed())] + [str(p) for p in parts])
    return random.Random(int(hashlib.sha256(key.encode()).hexdigest()[:16], 16))


def family_rng(*parts: object) -> random.Random:
    """PRNG of one member of a finite scenario family: a pure function of the labels, NOT of VERIF_SEED.

    Scenario families are finite and fixed ("family-v1"); VERIF_SEED only selects which members a run
    executes (sample_indices). The whole family is swept during development, so that no seed can meet a
    genuine defect of the unchanged tree that is not already repaired or listed in known_findings.json."""
    key = ":".join(["family-v1"] + [str(p) for p in parts])
    return random.Random(int(hashlib.sha256(key.encode()).hexdigest()[:16], 16))


def sample_indices(prop: str, fam: str, size: int, n: int) -> list[int]:
    """The members of family `fam` this run executes: all of them if n >= size, else a VERIF_SEED-chosen sample."""
    if n >= size:
        return list(range(size))
    return sorted(rng_for(prop, fam, "sample").sample(range(size), n))


def jobs() -> int:
    try:
        return max(1, int(os.environ.get("VERIF_JOBS", "0")) or (os.cpu_count() or 4))
    except ValueError:
        return os.cpu_count() or 4


def digest(obj: Any) -> str:
    return hashlib.sha256(
        json.dumps(obj, sort_keys=True, default=str).encode("utf-8")
    ).hexdigest()[:16]


# --------------------------------------------------------------------------
# scratch space


_scratch_root: str | None = None


def scratch_root() -> str:
    """Per-invocation scratch directory on tmpfs when there is one."""
    global _scratch_root
    if _scratch_root is None or not os.path.isdir(_scratch_root):
        base = None
        for cand in (os.environ.get("VERIF_SCRATCH"), "/dev/shm", tempfile.gettempdir()):
            if cand and os.path.isdir(cand) and os.access(cand, os.W_OK):
                base = cand
                break
        assert base is not None
        _sweep_stale(base)
        _scratch_root = tempfile.mkdtemp(prefix=f"verif-sim-{os.getpid()}-", dir=base)
    return _scratch_root


def _sweep_stale(base: str) -> None:
    """Remove scratch roots left by invocations whose process is gone (e.g. killed)."""
    try:
        names = os.listdir(base)
    except OSError:
        return
    for n in names:
        if not n.startswith("verif-sim-"):
            continue
        try:
            pid = int(n.split("-")[2])
            os.kill(pid, 0)
        except (ValueError, IndexError):
            continue
        except ProcessLookupError:
            shutil.rmtree(os.path.join(base, n), ignore_errors=True)
        except OSError:
            continue


def cleanup_scratch() -> None:
    global _scratch_root
    if _scratch_root and os.path.isdir(_scratch_root):
        shutil.rmtree(_scratch_root, ignore_errors=True)
    _scratch_root = None


def new_dir(name: str) -> str:
    d = os.path.join(scratch_root(), name)
    if os.path.exists(d):
        shutil.rmtree(d, ignore_errors=True)
    os.makedirs(d)
    return d


def rmtree(path: str) -> None:
    shutil.rmtree(path, ignore_errors=True)


# --------------------------------------------------------------------------
# forked children


class ChildDied:
    """Result of a child that ended without delivering a result."""

    def __init__(self, status: int, timed_out: bool, output: str) -> None:
        self.status = status
        self.timed_out = timed_out
        self.output = output
        if os.WIFSIGNALED(status):
            self.exit_code = -os.WTERMSIG(status)
        else:
            self.exit_code = os.WEXITSTATUS(status)

    def __repr__(self) -> str:
        return f"ChildDied(exit={self.exit_code}, timeout={self.timed_out})"


def fork_call(
    fn: Callable[..., Any],
    *args: Any,
    timeout: float = 120.0,
    output_path: str | None = None,
    new_group: bool = False,
) -> Any:
    """Run fn(*args) in a forked child; return its (pickled) result or ChildDied.

    fd 1/2 of the child go to output_path (or /dev/null) so stray prints can never
    reach the check's own stdout, where a VIOLATION line would be believed.
    """
    r, w = os.pipe()
    sys.stdout.flush()
    sys.stderr.flush()
    pid = os.fork()
    if pid == 0:
        code = 70
        try:
            os.close(r)
            if new_group:
                os.setpgid(0, 0)
            out = os.open(
                output_path or os.devnull, os.O_WRONLY | os.O_CREAT | os.O_APPEND, 0o644
            )
            os.dup2(out, 1)
            os.dup2(out, 2)
            os.close(out)
            devnull = os.open(os.devnull, os.O_RDONLY)
            os.dup2(devnull, 0)
            os.close(devnull)
            sys.stdout = open(1, "w", closefd=False)
            sys.stderr = open(2, "w", closefd=False)
            faulthandler.enable(file=sys.stderr)
            faulthandler.dump_traceback_later(max(1.0, timeout - 2.0), exit=False)
            try:
                res = ("ok", fn(*args))
            except SystemExit as e:
                res = ("exit", e.code)
            except BaseException:
                res = ("exc", traceback.format_exc())
            data = pickle.dumps(res)
            with os.fdopen(w, "wb") as f:
                f.write(data)
            code = 0
        except BaseException:
            try:
                traceback.print_exc()
            except BaseException:
                pass
        finally:
            try:
                sys.stdout.flush()
                sys.stderr.flush()
            except BaseException:
                pass
            os._exit(code)
    os.close(w)
    chunks: list[bytes] = []
    deadline = time.monotonic() + timeout
    timed_out = False
    while True:
        left = deadline - time.monotonic()
        if left <= 0:
            timed_out = True
            break
        try:
            ready, _, _ = select.select([r], [], [], left)
        except InterruptedError:
            continue
        if not ready:
            timed_out = True
            break
        b = os.read(r, 1 << 20)
        if not b:
            break
        chunks.append(b)
    os.close(r)
    if timed_out:
        try:
            if new_group:
                os.killpg(pid, signal.SIGKILL)
            else:
                os.kill(pid, signal.SIGKILL)
        except OSError:
            pass
    _, status = os.waitpid(pid, 0)
    if new_group:
        try:
            os.killpg(pid, signal.SIGKILL)
        except OSError:
            pass
    data = b"".join(chunks)
    if data and not timed_out:
        try:
            kind, val = pickle.loads(data)
        except Exception:
            kind, val = "exc", "unpicklable child result"
        if kind == "ok":
            return val
        if kind == "exc":
            raise HarnessError("child raised:\n" + str(val))
        if kind == "exit":
            raise HarnessError(f"child called sys.exit({val!r}) outside the run wrapper")
    out = ""
    if output_path and os.path.exists(output_path):
        try:
            with open(output_path, errors="replace") as f:
                out = f.read()[-4000:]
        except OSError:
            pass
    return ChildDied(status, timed_out, out)


# --------------------------------------------------------------------------
# process pool of scenario workers


def _pool_init() -> None:
    # Each pool worker gets its own scratch dir (the parent's is inherited by fork).
    global _scratch_root
    parent = _scratch_root
    _scratch_root = None
    if parent:
        os.environ["VERIF_SCRATCH"] = parent
    scratch_root()


def _pool_task(fn: Callable[..., Any], item: Any) -> Any:
    try:
        return ("ok", fn(item))
    except HarnessError as e:
        return ("harness", str(e))
    except BaseException:
        return ("harness", traceback.format_exc())


def run_pool(
    fn: Callable[[Any], Any],
    items: Iterable[Any],
    nproc: int | None = None,
    budget_s: float | None = None,
    on_result: Callable[[Any], None] | None = None,
) -> tuple[list[Any], int]:
    """Map fn over items in forked workers.  Returns (results, n_skipped_for_budget).

    Results come back in completion order (callers sort by scenario index); a
    harness error in any task aborts the check with EXIT_HARNESS.
    """
    import multiprocessing as mp

    items = list(items)
    nproc = nproc or jobs()
    scratch_root()
    results: list[Any] = []
    skipped = 0
    t0 = time.monotonic()
    if nproc == 1 or len(items) <= 1:
        for it in items:
            if budget_s is not None and time.monotonic() - t0 > budget_s:
                skipped += 1
                continue
            kind, val = _pool_task(fn, it)
            if kind != "ok":
                raise HarnessError(val)
            results.append(val)
            if on_result:
                on_result(val)
        return results, skipped
    ctx = mp.get_context("fork")
    with ProcessPoolExecutor(max_workers=nproc, mp_context=ctx, initializer=_pool_init) as ex:
        pending = {}
        it = iter(items)
        exhausted = False

        def submit_more() -> None:
            nonlocal exhausted, skipped
            while not exhausted and len(pending) < nproc * 2:
                if budget_s is not None and time.monotonic() - t0 > budget_s:
                    skipped += sum(1 for _ in it)
                    exhausted = True
                    return
                try:
                    nxt = next(it)
                except StopIteration:
                    exhausted = True
                    return
                pending[ex.submit(_pool_task, fn, nxt)] = nxt

        submit_more()
        while pending:
            done = next(as_completed(list(pending)))
            pending.pop(done)
            kind, val = done.result()
            if kind != "ok":
                for f in pending:
                    f.cancel()
                raise HarnessError(val)
            results.append(val)
            if on_result:
                on_result(val)
            if len(items) >= 200 and len(results) % max(1, len(items) // 10) == 0:
                print(f"  progress: {len(results)}/{len(items)} scenarios, {time.monotonic() - t0:.0f}s", file=sys.stderr, flush=True)
            submit_more()
    return results, skipped


# --------------------------------------------------------------------------
# minimisation


def ddmin(items: list[Any], fails: Callable[[list[Any]], bool], max_tests: int = 200) -> list[Any]:
    """Classic ddmin: smallest sub-list (order kept) for which fails() stays true."""
    tests = 0
    n = 2
    cur = list(items)
    while len(cur) >= 2 and tests < max_tests:
        chunk = max(1, len(cur) // n)
        subsets = [cur[i : i + chunk] for i in range(0, len(cur), chunk)]
        reduced = False
        for i in range(len(subsets)):
            complement = [x for j, s in enumerate(subsets) if j != i for x in s]
            tests += 1
            if complement and fails(complement):
                cur = complement
                n = max(n - 1, 2)
                reduced = True
                break
            if tests >= max_tests:
                break
        if not reduced:
            if n >= len(cur):
                break
            n = min(len(cur), n * 2)
    if len(cur) == 1 and tests < max_tests:
        if fails([]):
            return []
    return cur


# --------------------------------------------------------------------------
# known findings, violations, evidence


def load_known_findings(prop: str) -> list[dict[str, Any]]:
    if not os.path.exists(KNOWN_FINDINGS):
        return []
    with open(KNOWN_FINDINGS) as f:
        data = json.load(f)
    return [e for e in data.get("findings", []) if e.get("property") == prop]


def match_soft(classes: str, known: list[dict[str, Any]]) -> list[dict[str, Any]] | None:
    """Known-finding entries for every class of a 'soft' difference, or None if one class is not listed."""
    out = []
    for c in classes.split("+"):
        e = next((e for e in known if e.get("match", {}).get("kind") == c), None)
        if e is None:
            return None
        out.append(e)
    return out


def match_member(v: dict[str, Any], known: list[dict[str, Any]]) -> dict[str, Any] | None:
    """Known finding listed by family member: match = {"family": f, "members": [k, ...]} (specific inputs)."""
    for e in known:
        m = e.get("match", {})
        if "members" in m and m.get("family") == v.get("family") and v.get("k") in m["members"]:
            if "kind" in m and m["kind"] != v["violation"].get("kind"):
                continue
            return e
    return None


def dump_raw(prop: str, tier: str, by_class: dict[str, list[dict[str, Any]]]) -> None:
    """Before any minimisation: write every violation class with all its members to replays/<prop>/raw-<tier>.json,
    so that a long sweep never loses what it found."""
    d = os.path.join(REPLAY_DIR, prop)
    os.makedirs(d, exist_ok=True)
    out = {}
    for cls, vs in sorted(by_class.items()):
        out[cls] = {"members": [[x.get("family"), x.get("k"), (x.get("scenario") or {}).get("case"), (x.get("scenario") or {}).get("transform"), (x.get("scenario") or {}).get("req_style")] for x in vs],
                    "example": vs[0]}
    with open(os.path.join(d, f"raw-{tier}.json"), "w") as f:
        json.dump(out, f, indent=1, default=str)
    for cls, vs in sorted(by_class.items()):
        print(f"  class {cls}: {len(vs)} member(s)", file=sys.stderr, flush=True)


def _finalise_wrap(fn: Callable[[Any], Any], v: dict[str, Any]) -> dict[str, Any]:
    try:
        out = dict(fn(v))
    except HarnessError as e:
        # keep the un-minimised member rather than losing the whole run; the caller reports it as is
        out = {k_: v_ for k_, v_ in v.items() if k_ not in ("members", "cls")}
        out["unminimised"] = str(e)[:300]
    out["members"] = v.get("members")
    out["cls"] = v.get("cls")
    return out


def finalise_classes(fn: Callable[[Any], Any], by_class: dict[str, list[dict[str, Any]]]) -> list[dict[str, Any]]:
    """Minimise one representative per violation class (in the pool) and attach the list of all members."""
    import functools

    reps = []
    for cls, vs in sorted(by_class.items()):
        reps.append(dict(vs[0], cls=cls, members=[[x.get("family"), x.get("k")] for x in vs][:200]))
    finals, _ = run_pool(functools.partial(_finalise_wrap, fn), reps)
    return sorted(finals, key=lambda f: str(f.get("cls")))


def write_replay(prop: str, replay: dict[str, Any]) -> str:
    d = os.path.join(REPLAY_DIR, prop)
    os.makedirs(d, exist_ok=True)
    replay = dict(replay)
    replay["property"] = prop
    path = os.path.join(d, digest(replay) + ".json")
    with open(path, "w") as f:
        json.dump(replay, f, indent=1, sort_keys=True, default=str)
        f.write("\n")
    return path


class Report:
    """Collects what a check did and writes the evidence file."""

    def __init__(self, prop: str, tier: str, level: str) -> None:
        self.prop = prop
        self.tier = tier
        self.level = level
        self.t0 = time.monotonic()
        self.evaluations = 0
        self.nontrivial: set[str] = set()
        self.samples: list[Any] = []
        self.faults: dict[str, int] = {}
        self.probes: dict[str, int] = {}
        self.extra: dict[str, Any] = {}
        self.violations: list[str] = []
        self.known: list[str] = []
        self.sim_time_s = 0.0
        self.interleavings: set[str] = set()
        self.rule = ""
        self.assumptions: list[str] = []
        self.real_components: list[str] = []
        self.stub_components: list[str] = []
        self.exhaustive: bool | None = None

    def count(self, table: dict[str, int], items: dict[str, int] | None) -> None:
        for k, v in (items or {}).items():
            table[k] = table.get(k, 0) + v

    def add_result(self, res: dict[str, Any]) -> None:
        """Fold one scenario result (a dict produced in a pool worker)."""
        self.evaluations += res.get("evaluations", 1)
        for d in res.get("nontrivial", []):
            self.nontrivial.add(d)
        self.count(self.faults, res.get("faults"))
        self.count(self.probes, res.get("probes"))
        self.sim_time_s += res.get("sim_time_s", 0.0)
        for d in res.get("interleavings", []):
            self.interleavings.add(d)
        if res.get("sample") is not None and len(self.samples) < 4:
            self.samples.append(res["sample"])

    def violation(self, replay_path: str, what: str = "") -> None:
        line = f"VIOLATION property={self.prop} replay={replay_path}"
        print(line + (f"  # {what}" if what else ""), flush=True)
        self.violations.append(replay_path)

    def known_finding(self, what: str) -> None:
        if what not in self.known:
            self.known.append(what)
            print(f"KNOWN-FINDING: property={self.prop} {what}", flush=True)

    def write(self) -> None:
        wall = time.monotonic() - self.t0
        cov: dict[str, Any] = {
            "evaluations": self.evaluations,
            "distinct_nontrivial": len(self.nontrivial),
            "rule": self.rule,
            "samples": self.samples or ["(no sample recorded)"],
            "faults_fired": dict(sorted(self.faults.items())),
            "probes": dict(sorted(self.probes.items())),
            "sim_time_s": round(self.sim_time_s, 3),
            "runs_per_hour": int(self.evaluations / wall * 3600) if wall > 0 else 0,
            "distinct_interleavings": len(self.interleavings),
            "real_components": self.real_components,
            "stub_components": self.stub_components,
            "known_findings_matched": self.known,
        }
        if self.exhaustive is not None:
            cov["exhaustive"] = self.exhaustive
        cov.update(self.extra)
        ev = {
            "property_id": self.prop,
            "tier": self.tier,
            "seed": seed(),
            "level": self.level,
            "coverage": cov,
            "assumptions": self.assumptions,
            "wall_s": round(wall, 2),
            "violations": len(self.violations),
        }
        os.makedirs(EVIDENCE_DIR, exist_ok=True)
        tmp = os.path.join(EVIDENCE_DIR, f".{self.prop}.json.tmp")
        with open(tmp, "w") as f:
            json.dump(ev, f, indent=1, sort_keys=True, default=str)
            f.write("\n")
        os.replace(tmp, os.path.join(EVIDENCE_DIR, f"{self.prop}.json"))

    def exit_code(self) -> int:
        return EXIT_VIOLATION if self.violations else EXIT_OK
