"""Exploration aid (not a registered check): the restricted, clean project model under the C03 oracle.
Measured on the repaired tree: 300 histories -> 275 equal, 22 equal after the soft classes (only_once note, order within a file),
3 genuinely stale daemon answers (e.g. a class deleted from m1 stays visible through `from m1 import C0` in m2).
Because this family is infinite, its genuine findings cannot be listed one by one, so it is not part of ./check C03."""
import sys, time, json, collections, random
sys.path.insert(0,'/verif')
from sim import kit, histsim, project
from checks import c03
import mypy.build, mypy.main, mypy.dmypy_server
def gen(k):
    rng=kit.rng_for("C03clean",k)
    scn=histsim.gen_history_scenario(rng,cfg=histsim.STORE_CONFIGS[0],max_steps=5,acyclic=True,clock_mode="plain")
    # restrict constructs
    for m in scn["project"]["mods"].values():
        m["imports"]=[i for i in m["imports"] if i["style"] in ("import","from") and i["mod"] in scn["project"]["mods"]]
        m["uses"]=[u for u in m["uses"] if u["imp"]<len(m["imports"])]
        m["stub"]=False
    scn["project"].pop("plugin",None)
    for mid in [m for m in scn["project"]["mods"] if m.startswith("ns")]:
        del scn["project"]["mods"][mid]
    for m in scn["project"]["mods"].values():
        m["imports"]=[i for i in m["imports"] if i["mod"] in scn["project"]["mods"]]
        m["uses"]=[u for u in m["uses"] if u["imp"]<len(m["imports"])]
    scn["project"]["roots"]=sorted(set(r for r in scn["project"]["roots"] if r in scn["project"]["mods"]))
    scn["project"]["argv_mode"]="files"
    steps=[]
    for st in scn["steps"]:
        ed=[e for e in st["edits"] if e["e"] in ("slot","uses","touch") and e["mod"] in scn["project"]["mods"]]
        if ed: steps.append(dict(st,edits=ed,run=True,request="auto"))
    scn["steps"]=steps or [{"edits":[{"e":"touch","mod":"m0"}],"gap_s":2,"run":True}]
    scn["mode"]=rng.choice(["normal","error"])
    return scn
def cat(k):
    scn=gen(k)
    try: r=c03.evaluate(scn,f"cl{k}")
    except kit.HarnessError as e: return ('harness',str(e)[-200:])
    v=r["violation"]
    if v is None: return ('ok',r["info"].get("soft"))
    return (v["kind"], json.dumps(v)[:600])
res,_=kit.run_pool(cat,list(range(64,364)))
print(collections.Counter(r[0] for r in res)); print(collections.Counter(json.dumps(r[1]) for r in res if r[0]=='ok'))
for r in res:
    if r[0] not in ('ok',): print(r[1][:600])
kit.cleanup_scratch()
