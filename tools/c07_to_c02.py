"""Debug aid: turn a C07 replay whose follow-up leg is stale even sequentially into a minimised C02 history."""
import json, sys, os
sys.path.insert(0, '/verif')
from sim import kit
from checks import c02
import mypy.build, mypy.main
rp = json.load(open(sys.argv[1]))
s = rp["scenario"]
steps = [dict(st, run=True) for st in s["steps"]] + [dict(s["followup"]["step"], run=True)]
scn = {"project": s["project"], "config": s["config"], "steps": steps, "clock_mode": "plain"}
r = c02.evaluate(scn, "x")
print("violation:", json.dumps(r["violation"])[:400])
if r["violation"]:
    small = c02.minimise(scn, r["violation"])
    v = c02.evaluate(small, "y")["violation"]
    out = sys.argv[2] if len(sys.argv) > 2 else "/dev/shm/c02_min.json"
    json.dump({"scenario": small, "violation": v}, open(out, "w"))
    print("minimised ->", out, json.dumps(v)[:600])
kit.cleanup_scratch()
