"""usage: killmatch.py <substring> [<substring>...]  -- SIGKILL every process whose argv contains one of the substrings
(never this process or its ancestors; safe replacement for pkill -f, which also matches the calling shell)."""
import os, sys, signal
me = os.getpid()
anc = set()
p = me
while p > 1:
    anc.add(p)
    try:
        p = int(open(f"/proc/{p}/stat").read().split(")")[-1].split()[1])
    except Exception:
        break
n = 0
for d in os.listdir("/proc"):
    if not d.isdigit() or int(d) in anc:
        continue
    try:
        cmd = open(f"/proc/{d}/cmdline", "rb").read().replace(b"\0", b" ").decode(errors="replace")
    except Exception:
        continue
    if any(s in cmd for s in sys.argv[1:]):
        try:
            os.kill(int(d), signal.SIGKILL); n += 1
        except Exception:
            pass
print("killed", n)
