#!/bin/bash
# usage: run_mutant.sh <seeded-id> <PROPERTY> [tier]   (development aid)
# Applies seeded/<id>/patch.diff in the scratch worktree /tmp/wt_mut (a worktree of /repo HEAD), runs the
# check against that tree via VERIF_REPO (so /repo and running checks are not disturbed), reverts.
ID=$1; PROP=$2; TIER=${3:-quick}
WT=${VERIF_MUT_WT:-/tmp/wt_mut}
cd $WT || exit 2
git checkout -q -- . && git checkout -q --detach $(git -C /repo rev-parse HEAD) && git apply $( [ -f /verif/seeded/$ID/patch_head.diff ] && echo /verif/seeded/$ID/patch_head.diff || echo /verif/seeded/$ID/patch.diff ) || { echo "patch does not apply"; exit 2; }
OUT=/tmp/mut_${ID}_${PROP}
mkdir -p $OUT
(cd /verif && VERIF_REPO=$WT VERIF_EVIDENCE_DIR=$OUT VERIF_REPLAY_DIR=$OUT/replays timeout 3000 ./check $PROP --tier $TIER > $OUT/log 2>&1); RC=$?
cd $WT && git checkout -q -- .
echo "mutant $ID check $PROP tier $TIER -> exit $RC"; grep -c "^VIOLATION" $OUT/log; grep "^VIOLATION\|HARNESS" $OUT/log | cut -c1-200 | head -5; tail -1 $OUT/log | cut -c1-200
