"""Development aid: re-evaluate every C20 member listed in known_findings.json on the current tree."""
import json, os, sys
sys.path.insert(0, "/verif")
from sim import kit
from checks import c20

d = json.load(open("/verif/known_findings.json"))
items = []
for f in d["findings"]:
    if f["property"] != "C20":
        continue
    m = f["match"]
    if "index" in m:
        items.append((m["leg"], m["index"]))
    for i in m.get("indices", []):
        items.append((m["leg"], i))
res, skipped = kit.run_pool(c20.task, items, budget_s=3000)
still = {(r["leg"], r["k"]): r.get("violation") for r in res}
for it in items:
    v = still.get(it)
    print(it, "STILL " + c20.vkey(v) if v else "gone")
