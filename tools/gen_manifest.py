"""Regenerates MANIFEST.json from the table below (kept in one place so it stays valid)."""
import json, os

BASELINE_CMD = "cd /repo && /venv/bin/python -m pytest -ra -q -p no:cacheprovider --timeout=900 --continue-on-collection-errors"

NA = {
 "C01": "soundness of accepted programs is a relation between one program text and its executions; no clock, schedule, fault or history for a simulator to own (pure function of program x input)",
 "C05": "compiled-vs-interpreted equivalence is differential execution of a pure translation; optimisation level/grouping are build configurations, not events",
 "C06": "ownership balance over all CFG paths is a static dataflow statement; only the failing-allocation clause has a fault dimension and that leg (DESIGN 3/C06) was not built",
 "C08": "lattice laws are algebra over type pairs/triples; the only stateful clause (subtype caches) has no fault or schedule and is exercised indirectly by C10's in-process histories",
 "C11": "cache serialisation round trip is a pure encoder/decoder pair on a symbol table",
 "C12": "arity/MRO/reachability/constant folding vs CPython are bounded pure rules",
 "C13": "ignore-comment exactness is a metamorphic relation between two inputs of a single stateless run",
 "C14": "native vs default parser are two pure front ends compared on the same text",
 "C15": "numeric primitives are pure functions of operand values",
 "C17": "configuration precedence is a pure mapping from configuration text to Options",
 "C18": "file <-> module mapping is a pure function of a directory layout and flags",
 "C19": "stubgen validity/faithfulness is a pure generator checked by cross-tool round trip",
}

CHECKS = {}

def check(pid, engine, category, text, note, technique, design_ref):
    CHECKS[pid] = {
        "property_id": pid,
        "quick_cmd": f"./check {pid} --tier quick",
        "thorough_cmd": f"./check {pid} --tier thorough",
        "evidence_file": f"/verif/evidence/{pid}.json",
        "replay_cmd_template": f"./check {pid} --replay {{path}}",
        "engine": engine,
        "level_claimed": {"category": category, "text": text, "design_ref": design_ref},
        "level_note": note,
        "technique": technique,
    }

check("C16", "ipcsim", "fault_enumeration",
      "The shipped Server.serve loop, IPCServer framing and dmypy_util run unmodified against a scripted transport (mypy.ipc.socket replaced). Enumerated completely: client close/reset at every byte offset of a check and a recheck frame; a table of header/payload/command garbage (alone and doubled); hang-up at every reply frame and byte offsets incl. on stop. Sampled by seed: swarm sequences of client behaviours interleaved with edits, and frame sequences under drawn segmentations through the real read_bytes/write_bytes/ready_to_read. Oracles: daemon alive, every well-formed request answered, answers equal a reference daemon that never met the faulty clients, no status file naming the daemon after stop/idle-timeout/crash exit.",
      "Trusted: the scripted socket models a stream socket (recv returns <= size bytes, b'' on close, ECONNRESET/EPIPE on reset); every client eventually disconnects; typeshed replaced by test-data/unit/lib-stub; argument-level validation of known commands is outside the statement and not judged.",
      "deterministic simulation: scripted fake socket transport under the real serve loop, enumerated client-fault points + seeded fault sequences, reference-daemon oracle",
      "DESIGN.md 3/C16")

def main():
    props = [json.loads(l)["id"] for l in open(os.path.join(os.path.dirname(__file__), "..", "properties.jsonl"))]
    na = [{"property_id": p, "reason": NA.get(p, "check not built yet in this session (planned, see DESIGN.md section 0); not claimed until its check exists and is clean on the unchanged tree")} for p in props if p not in CHECKS]
    m = {
        "version": 1,
        "setup_cmd": "./setup.sh",
        "hooks": {
            "guard": "PYTHON_MYPY_VERIF",
            "enable": "no hook commits in /repo: every seam is reached by replacing module attributes from the harness process (mypy is an interpreted, editable install); checks set PYTHON_MYPY_VERIF=1 in their own environment only",
            "baseline_off_cmd": BASELINE_CMD,
            "source_commits": [],
            "add_only": True,
        },
        "engines": [
            {"name": "ipcsim", "path": "sim/ipcsim.py", "serves_properties": ["C16"], "kind_free_text": "single-threaded pull simulation of the daemon's transport: accept/recv/sendall answered by a scenario op list"},
        ],
        "checks": [CHECKS[p] for p in props if p in CHECKS],
        "not_applicable": na,
        "notes": "Technique family: deterministic simulation with fault injection. One integer (VERIF_SEED) decides every sampled scenario; replay files are explicit op lists. Genuine defects repaired in /repo are listed under 'fixed' in known_findings.json.",
    }
    with open(os.path.join(os.path.dirname(__file__), "..", "MANIFEST.json"), "w") as f:
        json.dump(m, f, indent=1)
        f.write("\n")

if __name__ == "__main__":
    main()
