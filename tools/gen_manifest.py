"""Regenerates MANIFEST.json from the table below (kept in one place so it stays valid)."""
import json, os

BASELINE_CMD = "cd /repo && /venv/bin/python -m pytest -ra -q -p no:cacheprovider --timeout=900 --continue-on-collection-errors"

NA = {
 "C01": "soundness of accepted programs is a relation between one program text and its executions; no clock, schedule, fault or history for a simulator to own (pure function of program x input)",
 "C05": "compiled-vs-interpreted equivalence is differential execution of a pure translation; optimisation level/grouping are build configurations, not events",
 "C06": "ownership balance over all CFG paths is a static dataflow statement; only the failing-allocation clause has a fault dimension and that leg (DESIGN 3/C06) was not built",
 "C08": "lattice laws are algebra over type pairs/triples; the only stateful clause (subtype caches) has no fault or schedule and is exercised indirectly by C10's in-process histories",
 "C11": "cache serialisation round trip is a pure encoder/decoder pair on a symbol table",
 "C12": "arity/MRO/reachability/constant folding vs CPython are bounded pure rules",
 "C13": "ignore-comment exactness is a metamorphic relation between two inputs of a single stateless run",
 "C14": "native vs default parser are two pure front ends compared on the same text",
 "C15": "numeric primitives are pure functions of operand values",
 "C17": "configuration precedence is a pure mapping from configuration text to Options",
 "C18": "file <-> module mapping is a pure function of a directory layout and flags",
 "C19": "stubgen validity/faithfulness is a pure generator checked by cross-tool round trip",
}

CHECKS = {}
NOT_YET = []  # checks that are written but not claimed yet

def check(pid, engine, category, text, note, technique, design_ref):
    CHECKS[pid] = {
        "property_id": pid,
        "quick_cmd": f"./check {pid} --tier quick",
        "thorough_cmd": f"./check {pid} --tier thorough",
        "evidence_file": f"/verif/evidence/{pid}.json",
        "replay_cmd_template": f"./check {pid} --replay {{path}}",
        "engine": engine,
        "level_claimed": {"category": category, "text": text, "design_ref": design_ref},
        "level_note": note,
        "technique": technique,
    }

check("C16", "ipcsim", "fault_enumeration",
      "The shipped Server.serve loop, IPCServer framing and dmypy_util run unmodified against a scripted transport (mypy.ipc.socket replaced). Enumerated completely: client close/reset at every byte offset of a check and a recheck frame; a table of header/payload/command garbage (alone and doubled); hang-up at every reply frame and byte offsets incl. on stop. Sampled by seed: swarm sequences of client behaviours interleaved with edits, and frame sequences under drawn segmentations through the real read_bytes/write_bytes/ready_to_read. Oracles: daemon alive, every well-formed request answered, answers equal a reference daemon that never met the faulty clients, no status file naming the daemon after stop/idle-timeout/crash exit.",
      "Trusted: the scripted socket models a stream socket (recv returns <= size bytes, b'' on close, ECONNRESET/EPIPE on reset); every client eventually disconnects; typeshed replaced by test-data/unit/lib-stub; argument-level validation of known commands is outside the statement and not judged.",
      "deterministic simulation: scripted fake socket transport under the real serve loop, enumerated client-fault points + seeded fault sequences, reference-daemon oracle",
      "DESIGN.md 3/C16")

check("C02", "histsim", "exploration",
      "Seeded edit histories over generated multi-module projects (slots, uses, imports incl. cycles, module add/delete, stubs, syntax break/heal, inline config, touch) on all store x format configurations under a simulated mtime clock (gaps, forward jumps, back-jumps, sub-second gaps); after every run step the real CLI run on the shared cache is compared with a real CLI run on an empty cache. Further finite families: the repository's incremental cases x history transforms, a clock-stall family, and hand-written histories that isolate one dependency mechanism each (sim/synthetic-incremental.test) x transforms x store/format configurations. A clean batch is evidence, not proof.",
      "Trusted: the cold run as oracle; typeshed replaced by lib-stub + fixture builtins; content-changing edits change (int(mtime), size) in the main campaign (the stall family drops this and is matched as a known finding by counterfactual replay); known-finding classifiers in sim/runner.py (only_once notes, partial output before a blocker).",
      "deterministic simulation: seeded edit/run histories over a durable cache with a simulated mtime clock, warm-vs-cold oracle, ddmin-minimised replay op lists",
      "DESIGN.md 3/C02")
check("C04", "histsim", "fault_enumeration",
      "Per scenario (project x store/format config x warm-up x edit x clock mode) the clean execution of the run after the edit is recorded, and every fault plan is executed from the same cache snapshot: crash before each mutating store op and after the last op, each single write / remove / commit failing through the store's own error path, torn temp-file write, all data / meta / meta_ex / all writes failing, plus sampled failure subsets; the following clean warm run must equal the cold run. Second continuation (revert leg, with a fault-free control per scenario): the edit is undone, then one half and the other half of the files are re-saved, each followed by a run compared with its cold run. Includes a determinism self-test.",
      "Trusted: a completed syscall / committed sqlite transaction survives the kill (process death, not power loss); the scenario families (128 generated projects incl. plugin changes, 24 plugin-change projects with independent leaf modules, 24 parallel-build scenarios with worker/coordinator crash points and worker store failures on the fixed schedule of sim/parsched.py) are finite and swept completely in the thorough tier, VERIF_SEED selects the quick sample; plans per scenario are enumerated.",
      "deterministic simulation with fault injection: store-op level crash-point and write-failure enumeration inside simulated runs, cold-run oracle",
      "DESIGN.md 3/C04")
check("C07", "parsched", "exploration",
      "The shipped coordinator (build.build with num_workers=N) and shipped worker main run as real processes whose interleaving is owned by a seeded controller: workers park at a gate before every store op and every send, the controller replaces the coordinator's select() and draws one action (step worker i / deliver a subset of ready replies) at a time; free-worker choice is drawn too. Besides the generated and corpus families, two hand-shaped families: disjoint import cycles on 2-3 shard stores (cyc) and independent interface changes with unchanged dependants in a warm parallel run (pair). Output must equal the sequential build; the cache left behind must serve later sequential and parallel warm runs; no record may be read by a worker before another worker writes it in the same run; no deadlock. Determinism self-test on every run.",
      "Trusted: replies fit in the socket buffer; the sqlite shard lock is simulated (a write is not enabled while another worker holds an uncommitted write on that shard); workers are pre-forked slots instead of exec'd interpreters; typeshed replaced by fixtures.",
      "deterministic simulation: seeded scheduler over gated real worker processes (baton passing at store-op and message granularity), sequential-build oracle",
      "DESIGN.md 3/C07")
check("C09", "histsim", "exploration",
      "The complete flag table is read at run time from the real argument parser; every flag is either toggled (both directions, four runs per pair: cold A, cold B, warm B after A, warm A after B) or listed with a reason in the evidence. Witness programs are a kitchen-sink program plus the corpus cases of check-*.test whose '# flags:' line names the flag; carriers are the command line and [mypy] / [mypy-<module>] config sections.",
      "Trusted: cold run as oracle; a toggle is only informative when cold(A) != cold(B) (counted as non-trivial); flags in flags_not_toggled are outside the check.",
      "deterministic simulation: two-run histories sharing a durable cache with the option change as the event, enumerated over the parser's flag table",
      "DESIGN.md 3/C09")
check("C10", "histsim", "exploration",
      "Nuisance variables are owned and varied one at a time: PYTHONHASHSEED (real interpreters started with different seeds run the same scenario at the same absolute path and simulated clock; stdout order and every cache record compared byte for byte, cold and warm, and -n under a fixed schedule script), order of file arguments on acyclic projects, directory listing order, and earlier unrelated builds (CLI, api.run, daemon Server, some failing) inside the same interpreter.",
      "Trusted: K hash seeds are a sample; variants run sequentially in one directory because cache records embed absolute paths; typeshed replaced by fixtures.",
      "deterministic simulation: controlled-variable histories (hash seed, argument order, listing order, in-process build history) with byte-level comparison of output and cache records",
      "DESIGN.md 3/C10")
check("C03", "daemonsim", "exploration",
      "One long-lived dmypy Server object is driven through check/recheck over histories derived from the repository's multi-step fine-grained cases (fine-grained*.test read at run time) and six hand-written cases (sim/synthetic-follow-imports.test: chains of modules edited at once, re-export-only edits): forward, revert to first, revert to previous and redo, skip a step, one file at a time, touch noise, restore backup (old content with its old mtime), all at once, start from a fine-grained cache; request style check <files> or recheck. After every request a fresh daemon on byte- and mtime-identical files is the oracle (status, per-file ordered diagnostics, stderr). The family (case x transform x style) is finite and swept completely in the thorough tier; VERIF_SEED selects the quick sample.",
      "Trusted: fresh daemon as oracle (daemon-mode message wording is by design); the summary line is not a diagnostic; members whose cached state has diagnostics are outside the cache leg (documented unsupported in the suite); the generated-model family is exploration only (DESIGN 9.7); transport is C16's subject.",
      "deterministic simulation: long-lived daemon vs fresh daemon over transformed edit histories with a simulated mtime clock",
      "DESIGN.md 3/C03, 9.7")
check("C20", "daemonsim", "exploration",
      "The sub-space of the property's inputs that storage faults produce: every single-step program of check-*.test (with its fixtures and flags) under torn / spliced / lost / duplicated / reordered sector and flipped byte saves at line, 16-byte and 64-byte granularity, executed as a batch history on one cache (run; faulty save; run; heal; run) and as a daemon history on one Server; every run must end 0/1/2 without INTERNAL ERROR, traceback, hang or malformed message lines, and must recover after the heal. Internal failures are reported only if they reproduce against the bundled typeshed.",
      "Trusted: identifier cross-wiring and type-expression replacement mutations of the property are NOT covered (not storage faults); fixtures replace typeshed in the fast path; the registered family is every 29th member of the full product (28736 faulty saves, swept completely in the thorough tier; VERIF_SEED selects the quick sample); known findings are identified by family member (leg, index).",
      "deterministic simulation with fault injection: faulty saves (torn, spliced, lost, duplicated, reordered, bit-flipped sectors) of corpus programs in batch and daemon histories",
      "DESIGN.md 3/C20")


def main():
    props = [json.loads(l)["id"] for l in open(os.path.join(os.path.dirname(__file__), "..", "properties.jsonl"))]
    for pid in NOT_YET:
        CHECKS.pop(pid, None)
    na = [{"property_id": p, "reason": NA.get(p, "check not built yet in this session (planned, see DESIGN.md section 0); not claimed until its check exists and is clean on the unchanged tree")} for p in props if p not in CHECKS]
    m = {
        "version": 1,
        "setup_cmd": "./setup.sh",
        "hooks": {
            "guard": "PYTHON_MYPY_VERIF",
            "enable": "no hook commits in /repo: every seam is reached by replacing module attributes from the harness process (mypy is an interpreted, editable install); checks set PYTHON_MYPY_VERIF=1 in their own environment only",
            "baseline_off_cmd": BASELINE_CMD,
            "source_commits": [],
            "add_only": True,
        },
        "engines": [
            {"name": "histsim", "path": "sim/histsim.py", "serves_properties": ["C02", "C04", "C09", "C10"], "kind_free_text": "edit/run histories over a durable cache: forked run children executing the real CLI with store, clock and fixture seams (sim/runner.py), world on tmpfs with simulated mtimes (sim/world.py), generated project model (sim/project.py) and corpus reader (sim/corpus.py)"},
            {"name": "parsched", "path": "sim/parsched.py", "serves_properties": ["C07"], "kind_free_text": "seeded scheduler over gated real worker processes of a parallel build"},
            {"name": "daemonsim", "path": "sim/daemonsim.py", "serves_properties": ["C03", "C20"], "kind_free_text": "long-lived dmypy Server driven by method calls over mtime-exact file trees, fresh-daemon oracle"},
            {"name": "ipcsim", "path": "sim/ipcsim.py", "serves_properties": ["C16"], "kind_free_text": "single-threaded pull simulation of the daemon's transport: accept/recv/sendall answered by a scenario op list"},
        ],
        "checks": [CHECKS[p] for p in props if p in CHECKS],
        "not_applicable": na,
        "notes": "Technique family: deterministic simulation with fault injection. One integer (VERIF_SEED) decides every sampled scenario; replay files are explicit op lists. Genuine defects repaired in /repo are listed under 'fixed' in known_findings.json.",
    }
    with open(os.path.join(os.path.dirname(__file__), "..", "MANIFEST.json"), "w") as f:
        json.dump(m, f, indent=1)
        f.write("\n")

if __name__ == "__main__":
    main()
