#!/bin/bash
# usage: soak.sh <PROPERTY> <first-seed> <last-seed> [tier]
# Runs the check under many VERIF_SEED values (evidence/replays go to a scratch dir) and prints one line per seed.
PROP=$1; A=$2; B=$3; TIER=${4:-quick}
OUT=${VERIF_SOAK_DIR:-/tmp/soak}/$PROP
mkdir -p $OUT
for s in $(seq $A $B); do
  (cd "$(dirname "$0")/.." && VERIF_SEED=$s VERIF_EVIDENCE_DIR=$OUT/ev$s VERIF_REPLAY_DIR=$OUT/replays timeout 7200 ./check $PROP --tier $TIER > $OUT/seed$s.log 2>&1)
  echo "seed $s exit $? $(grep -c '^VIOLATION' $OUT/seed$s.log) violations; $(tail -1 $OUT/seed$s.log | cut -c1-160)"
done
