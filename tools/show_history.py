"""Debug aid: execute a histsim replay and print every run's output. usage: show_history.py replay.json [-v]"""
import json, sys, os
sys.path.insert(0, '/verif')
os.environ.setdefault("PYTHONHASHSEED", "0")
from sim import histsim, kit, runner, project
import mypy.build, mypy.main
rp = json.load(open(sys.argv[1]))
scn = rp["scenario"]
extra = ["-v"] if "-v" in sys.argv else []
h = histsim.History(scn, "show", stall_ok=scn.get("stall_ok", False))
def show(tag, r):
    print(f"--- {tag}: status={r['status']} rechecked={r.get('rechecked')}")
    print(r["stdout"], end="")
    if extra:
        print("\n".join(l for l in (r["stderr"] + open(os.path.join(h.world.root, "child.out")).read()).splitlines() if any(k in l for k in sys.argv[3:]))[:8000])
    elif r["stderr"]:
        print("STDERR:", r["stderr"][-1500:])
show("initial warm", h.run("warm", extra=extra)); show("initial cold", h.cold())
for i, st in enumerate(scn["steps"]):
    ch = h.apply_step(st)
    print(f"=== step {i}: changed {ch} edits {json.dumps(st['edits'])[:600]}")
    if st.get("run", True):
        show("warm", h.run("warm", extra=extra)); show("cold", h.cold())
if "--keep" in sys.argv:
    print("world kept at", h.world.root)
else:
    h.close(); kit.cleanup_scratch()
