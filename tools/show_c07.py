"""Debug aid: show files + outputs of a C07 replay."""
import json, sys, os
sys.path.insert(0, '/verif')
from sim import histsim, kit, runner, project
from checks import c07
import mypy.build, mypy.main, mypy.build_worker.worker
rp = json.load(open(sys.argv[1]))
scn = rp["scenario"]
h = histsim.History(scn, "show")
for f, t in sorted(h.world.files.items()):
    print("=====", f); print(t)
if scn["mode"] == "warm_seq":
    r0 = h.run("warm", extra=c07.SEQ_FLAGS); print("--- warmup seq", r0["status"]); print(r0["stdout"])
elif scn["mode"] == "warm_par":
    r0 = c07.run_par(scn, h, "warm", "warmup", None, "w"); print("--- warmup par", r0["status"]); print(r0["stdout"]); print(r0.get("traceback"))
for st in scn["steps"]:
    ch = h.apply_step(st); print("=== step changed", ch, json.dumps(st["edits"])[:1500])
for f in ch if scn["steps"] else []:
    if f in h.world.files: print("=====", f); print(h.world.files[f])
par = c07.run_par(scn, h, "warm", scn["par"]["sched_seed"], rp.get("script"), "m")
print("--- parallel", par["status"], par.get("rechecked")); print(par["stdout"]); print(par.get("traceback") or "")
for e in (par.get("par") or {}).get("events", []):
    if e[0] in ("request", "deliver"): print("   ", e)
seq = h.cold(extra=c07.SEQ_FLAGS)
print("--- sequential cold", seq["status"]); print(seq["stdout"])
h.close(); kit.cleanup_scratch()
