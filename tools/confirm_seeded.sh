#!/bin/bash
# usage: confirm_seeded.sh <worktree> <k> <dest-id> <property> [pytest args...]
# Confirms a sub-agent's seeded change in its scratch worktree (demo fails with the change,
# passes without; the given tests pass with it) and stores it under /verif/seeded/<dest-id>/.
set -u
WT=$1; K=$2; DEST=$3; PROP=$4; shift 4
S=$WT/_seeded/$K
cd $WT || exit 2
git checkout -q -- . ; git status --short | grep -v '^??' && { echo "worktree dirty"; exit 2; }
DEMO=$(ls $S/demo.* | head -1)
run_demo() { if [[ $DEMO == *.sh ]]; then (cd $WT && PYTHONPATH=$WT timeout 900 bash $DEMO); else (cd $WT && PYTHONPATH=$WT timeout 900 /venv/bin/python $DEMO); fi; }
echo "--- demo on unchanged tree"; run_demo > /tmp/confirm_$DEST.clean.log 2>&1; RC_CLEAN=$?
git apply $S/patch.diff || { echo "patch does not apply"; exit 2; }
echo "--- demo on changed tree"; run_demo > /tmp/confirm_$DEST.mut.log 2>&1; RC_MUT=$?
TESTS_RC=skipped
if [ $# -gt 0 ]; then
  echo "--- tests with change: $*"
  (cd $WT && PYTHONPATH=$WT timeout 3000 /venv/bin/python -m pytest -q -p no:cacheprovider "$@" > /tmp/confirm_$DEST.tests.log 2>&1); TESTS_RC=$?
  tail -3 /tmp/confirm_$DEST.tests.log
fi
git checkout -q -- .
echo "demo clean rc=$RC_CLEAN  changed rc=$RC_MUT  tests rc=$TESTS_RC"
if [ $RC_CLEAN -eq 0 ] && [ $RC_MUT -ne 0 ]; then
  mkdir -p /verif/seeded/$DEST
  cp $S/patch.diff /verif/seeded/$DEST/patch.diff
  cp $DEMO /verif/seeded/$DEST/
  cp $S/NOTES.md /verif/seeded/$DEST/NOTES.md 2>/dev/null
  TESTS_TAIL=$(tail -1 /tmp/confirm_$DEST.tests.log 2>/dev/null | tr -d '"' )
  cat > /verif/seeded/$DEST/meta.json <<EOM
{
 "property": "$PROP",
 "source": "independent sub-agent, worktree $WT, change $K",
 "demo": "$(basename $DEMO)",
 "confirmed": {"demo_rc_unchanged": $RC_CLEAN, "demo_rc_changed": $RC_MUT, "tests_cmd": "pytest -q -p no:cacheprovider $*", "tests_rc": "$TESTS_RC", "tests_summary": "$TESTS_TAIL"},
 "needs_to_manifest": "see NOTES.md",
 "caught_by": "TBD"
}
EOM
  echo "stored /verif/seeded/$DEST"
else
  echo "NOT CONFIRMED"
fi
