"""usage: sweep_to_known.py C03 <replays-dir>   (development aid)
Turns the replay files of a complete C03 corpus-family sweep into known_findings entries, one per corpus case:
match = {"case": ..., "members": [[transform, style], ...]} with the kinds seen and one example difference.
Prints JSON to stdout; entries are reviewed and pasted into known_findings.json by hand."""
import glob, json, os, sys
prop, d = sys.argv[1], sys.argv[2]
by_case = {}
for f in sorted(glob.glob(os.path.join(d, "*.json"))):
    rp = json.load(open(f))
    s, v = rp["scenario"], rp["violation"]
    if "case" not in s:
        continue
    if v["kind"] in ("recheck_follow_imports_keeps_unreferenced_modules", "soft"):
        continue
    e = by_case.setdefault(s["case"], {"members": [], "kinds": set(), "example": None})
    e["members"].append([s["transform"], s.get("req_style")])
    e["kinds"].add(v["kind"])
    if e["example"] is None:
        e["example"] = {k: v.get(k) for k in ("daemon", "fresh", "status") if k in v}
out = []
for case, e in sorted(by_case.items()):
    ex = json.dumps(e["example"])[:400]
    out.append({"property": prop, "match": {"case": case, "members": sorted(e["members"])},
                "what": f"{case}: the long-lived daemon differs from a fresh daemon under {len(e['members'])} member(s) of the swept family ({', '.join(sorted(e['kinds']))}); e.g. {ex}"})
print(json.dumps(out, indent=1))
print(f"# {len(out)} cases, {sum(len(e['members']) for e in by_case.values())} members", file=sys.stderr)
