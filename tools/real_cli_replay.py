"""usage: real_cli_replay.py <family> <k> [...]   (development aid)
Re-executes C02 family members with the REAL command line (`python -m mypy` subprocesses), the bundled typeshed,
no fixture seam, no store shim and no simulated clock (mtimes are set with os.utime from the scenario's clock);
prints whether warm == cold after every run step. Confirms that a finding does not depend on the harness seams."""
import json, os, shutil, subprocess, sys, tempfile
sys.path.insert(0, '/verif')
from sim import histsim, project, runner
from checks import c02

def run(cwd, argv, cache):
    env = dict(os.environ); env.pop("MYPYPATH", None); env["PYTHONHASHSEED"] = "0"
    r = subprocess.run(["/venv/bin/python", "-m", "mypy", *argv, "--cache-dir", cache], cwd=cwd, env=env, capture_output=True, text=True)
    return {"status": r.returncode, "stdout": r.stdout, "stderr": r.stderr}

for fam, k in zip(sys.argv[1::2], sys.argv[2::2]):
    k = int(k)
    scn = c02.gen(k, "thorough", stall=(fam == "stall"))
    h = histsim.History(scn, f"real{k}", stall_ok=scn.get("stall_ok", False))
    root = h.world.root
    verdicts = []
    def compare(tag):
        argv = project.argv_files(h.state) + histsim.config_flags(h.cfg)
        warm = run(h.world.proj, argv, os.path.join(root, "cw"))
        cold_dir = os.path.join(root, "cc"); shutil.rmtree(cold_dir, ignore_errors=True)
        cold = run(h.world.proj, argv, cold_dir)
        same = runner.same_observable(warm, cold) or runner.soft_difference(warm, cold) is not None
        verdicts.append((tag, same))
        if not same:
            d = runner.first_difference(warm, cold)
            print(f"  {fam} {k} step {tag}: warm != cold :: {json.dumps(d)[:500]}")
    compare(-1)
    for i, st in enumerate(scn["steps"]):
        h.apply_step(st)
        if st.get("run", True):
            compare(i)
    print(fam, k, "real CLI:", "GENUINE (differs)" if any(not s for _, s in verdicts) else "no difference with the real CLI", [t for t, s in verdicts if not s])
    h.close()
