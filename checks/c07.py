"""C07 — parallel checking gives the sequential result under every schedule.

Engine: sim/parsched.py (seeded scheduler over gated real worker processes) on top of
sim/histsim.py.  A scenario = project x store config x N workers x schedule seed x
scheduling policy x cache state (cold / warm after an edit, warmed sequentially or by a
previous parallel run).  Oracles:
  1. output and exit status of the parallel run == sequential run (same parser), per file;
  2. the cache it leaves is as valid: after a further edit a sequential warm run and a
     parallel warm run on that cache equal a cold run;
  3. invariant during the run: no record is read by one worker before another worker
     (re)writes it in the same run (i.e. dependants are only started after the interface
     commit);  4. bounded liveness: the schedule never reaches a state with no enabled
     action before the build has finished (deadlock), and finishes within the decision cap.
"""

from __future__ import annotations

import copy
import json
import os
import re
from typing import Any

from sim import corpus, histsim, kit, project, runner

PROP = "C07"
FAMILY = {"model": 1000, "cyc": 240, "pair": 160}  # finite scenario family (members are independent of VERIF_SEED); corpus family = cases x 2
SEQ_FLAGS = ["--native-parser"]


def par_spec(scn: dict[str, Any], h: histsim.History, seed: Any, script: list[int] | None, tag: str) -> dict[str, Any]:
    cfg = scn["config"]
    return {
        "workers": scn["par"]["workers"],
        "sched_seed": seed,
        "script": script,
        "policy": scn["par"].get("policy") or {},
        "store": cfg["store"],
        "num_shards": cfg.get("shards", 0),
        "parlog_path": os.path.join(h.world.root, f"par-{tag}.log"),
        "max_decisions": 20000,
    }


def run_par(scn: dict[str, Any], h: histsim.History, cache: str, seed: Any, script: list[int] | None, tag: str) -> dict[str, Any]:
    ps = par_spec(scn, h, seed, script, tag)
    if os.path.exists(ps["parlog_path"]):
        os.unlink(ps["parlog_path"])
    return h.run(cache, extra=["-n", str(scn["par"]["workers"])], pre_hook=["sim.parsched", "install"], par=ps)


def abnormal(r: dict[str, Any], what: str) -> dict[str, Any] | None:
    if r["status"] == "deadlock":
        return {"kind": "deadlock", "where": what, "detail": (r.get("traceback") or "")[-1200:]}
    if r["status"] not in (0, 1, 2):
        return {"kind": "run_abnormal", "where": what, "status": r["status"], "detail": (r.get("traceback") or r.get("stderr", ""))[-1800:]}
    # (an "INTERNAL ERROR" *message* that the sequential build prints as well is C20's business;
    # here it is simply part of the output that has to match)
    if "Traceback (most recent call last)" in r.get("stderr", ""):
        return {"kind": "run_abnormal", "where": what, "status": r["status"], "detail": (r.get("stderr", "") + r.get("stdout", ""))[-1800:]}
    return None


def _norm(r: dict[str, Any]) -> dict[str, Any]:
    # TypeVar ids are not stable in parallel checking; the suite normalises them the same way
    # (mypy.test.helpers.remove_typevar_ids)
    return dict(r, stdout=re.sub(r"`-?\d+", "", r.get("stdout") or ""))


def _multiset(r: dict[str, Any]) -> Any:
    o = runner.observable(r)
    return [o["status"], {f: sorted(v) for f, v in o["per_file"].items()}, o["other"], o["stderr"]]


def _sorted_run(r: dict[str, Any]) -> dict[str, Any]:
    per_file, other = runner.split_output(r.get("stdout") or "")
    lines = [l for f in sorted(per_file) for l in sorted(per_file[f])] + other
    return dict(r, stdout="\n".join(lines) + ("\n" if lines else ""))


def compare(par: dict[str, Any], seq: dict[str, Any], what: str) -> dict[str, Any] | None:
    par, seq = _norm(par), _norm(seq)
    # C07 states "the same diagnostics and exit status"; it does not state an order. A parallel
    # build reports a module's interface-phase messages before its implementation-phase messages,
    # so messages of one file are compared as a multiset (status, summary and stderr exactly).
    if _multiset(par) == _multiset(seq):
        return None
    # the soft classes are defined on ordered per-file lists; apply them to order-normalised runs
    soft = runner.soft_difference(_sorted_run(par), _sorted_run(seq))
    if soft is not None:
        return {"kind": "soft", "classes": soft, "where": what, "diff": runner.first_difference(par, seq)}
    return {"kind": "parallel_differs", "where": what, "diff": runner.first_difference(par, seq)}


SOFT = ("soft",)


def evaluate(scn: dict[str, Any], tag: str, script: list[int] | None = None) -> dict[str, Any]:
    h = histsim.History(scn, f"c07-{os.getpid()}-{tag}")
    info: dict[str, Any] = {"runs": 0, "par": None}
    soft = None
    try:
        mode = scn["mode"]
        if mode == "warm_seq":
            r0 = h.run("warm", extra=SEQ_FLAGS)
            v = abnormal(r0, "warmup_seq")
            if v:
                raise kit.HarnessError(f"sequential warm-up abnormal: {v}")
        elif mode == "warm_par":
            r0 = run_par(scn, h, "warm", "warmup", None, "w")
            v = abnormal(r0, "warmup_par")
            if v:
                return {"violation": v, "info": info, "sim_time_s": h.world.sim_advance_s}
        for st in scn["steps"]:
            h.apply_step(st)
        par = run_par(scn, h, "warm", scn["par"]["sched_seed"], script, "m")
        info["runs"] += 1
        info["par"] = {k: v for k, v in (par.get("par") or {}).items() if k != "events"}
        info["par_error"] = par.get("par_error")
        info["rechecked"] = par.get("rechecked")
        v = abnormal(par, "parallel")
        if v:
            return {"violation": v, "info": info, "sim_time_s": h.world.sim_advance_s}
        if par.get("par", {}).get("invariant"):
            return {"violation": {"kind": "invariant", "detail": par["par"]["invariant"][:3]}, "info": info, "sim_time_s": h.world.sim_advance_s}
        seq = h.cold(extra=SEQ_FLAGS)
        v = abnormal(seq, "sequential")
        if v:
            raise kit.HarnessError(f"sequential oracle run abnormal: {v}")
        v = compare(par, seq, "parallel_vs_sequential")
        if v and v["kind"] not in SOFT:
            return {"violation": v, "info": info, "sim_time_s": h.world.sim_advance_s}
        soft = soft or v
        # oracle 2: the cache left behind
        fu = scn.get("followup")
        if fu:
            h.apply_step(fu["step"])
            cold2 = h.cold(extra=SEQ_FLAGS)
            if fu["kind"] == "seq":
                w = h.run("warm", extra=SEQ_FLAGS)
            else:
                w = run_par(scn, h, "warm", str(scn["par"]["sched_seed"]) + "fu", None, "f")
            info["runs"] += 1
            v = abnormal(w, "followup_" + fu["kind"])
            if v:
                return {"violation": v, "info": info, "sim_time_s": h.world.sim_advance_s}
            v = compare(w, cold2, "followup_" + fu["kind"] + "_vs_cold")
            if v and v["kind"] not in SOFT:
                v["kind"] = "cache_left_by_parallel_run_stale"
                return {"violation": v, "info": info, "sim_time_s": h.world.sim_advance_s}
            soft = soft or v
            info["followup_rechecked"] = w.get("rechecked")
            info["followup_graph"] = w.get("graph")
    finally:
        sim = h.world.sim_advance_s
        h.close()
    return {"violation": soft, "info": info, "sim_time_s": sim}


POLICIES = [
    {},
    {"hold_replies": True},
    {"deliver_weight": 0.1},
    {"deliver_weight": 8.0},
    {"hold_replies": True},
    {"starve": [0]},
    {"starve": [0, 1], "deliver_weight": 0.3},
]


def gen(k: int, tier: str) -> dict[str, Any]:
    rng = kit.family_rng(PROP, "scn", k)
    cfgs = [c for c in histsim.STORE_CONFIGS if c["format"] == "ff"] + [histsim.STORE_CONFIGS[3], {"store": "sqlite", "shards": 2, "format": "ff"}, {"store": "sqlite", "shards": 3, "format": "ff"}]
    cfg = cfgs[k % len(cfgs)]
    base = histsim.gen_history_scenario(rng, cfg=cfg, max_steps=2, max_mods=9, clock_mode="plain")
    # more entry points -> wider graphs
    mods = [m for m in sorted(base["project"]["mods"]) if "." not in m]
    base["project"]["roots"] = sorted(set(base["project"]["roots"]) | {m for m in mods if rng.random() < 0.5})
    scn: dict[str, Any] = dict(base)
    for st in scn["steps"]:
        st["run"] = False
    rs = kit.family_rng(PROP, "shape", k)
    st0 = scn["project"]
    if st0.get("shape") is None and rs.random() < 0.35:
        # swarm shape "cycles": several disjoint import cycles, all reachable from entry points, so that a
        # parallel build has multi-module SCCs to process at the same time
        plain = [m for m in sorted(st0["mods"]) if "." not in m and m != "m0"]
        rs.shuffle(plain)
        st0["shape"] = "cycles"
        for g in [plain[i : i + 2] for i in range(0, len(plain) - 1, 2)][:3]:
            for a, b in zip(g, g[1:] + g[:1]):
                if not any(i["mod"] == b for i in st0["mods"][a]["imports"]):
                    st0["mods"][a]["imports"].append({"mod": b, "style": rs.choice(["import", "from", "import"]), "ignore": False})
            st0["roots"] = sorted(set(st0["roots"]) | {g[0]})
    scn["mode"] = rng.choice(["cold", "cold", "warm_seq", "warm_par"])
    if scn["mode"] != "cold" and rng.random() < 0.6:
        # make the warm run interesting for the coordinator: the interfaces of two different modules that
        # other (untouched) modules depend on change in the same step
        st2 = copy.deepcopy(base["project"])
        for st in scn["steps"]:
            for e in st["edits"]:
                project.apply_edit(st2, e)
        refs = sorted(set(project.referenced_slots(st2)))
        rng.shuffle(refs)
        picked: list[tuple[str, str]] = []
        for mid_, name_ in refs:
            if all(mid_ != p_[0] for p_ in picked):
                picked.append((mid_, name_))
            if len(picked) == 2:
                break
        extra_edits = [{"e": "slot", "mod": mid_, "name": name_, "spec": project.gen_slot(rng, st2["mods"][mid_], name_)} for mid_, name_ in picked]
        if extra_edits:
            scn["steps"] = scn["steps"] + [{"edits": extra_edits, "gap_s": 2.0, "run": False}]
    if scn["mode"] == "cold":
        # edits are simply part of the program
        pass
    scn["par"] = {
        "workers": rng.choice([1, 2, 2, 3, 3, 4, 5, 8]),
        "sched_seed": rng.randrange(1 << 30),
        "policy": rng.choice(POLICIES),
    }
    if rng.random() < 0.6:
        st2 = copy.deepcopy(base["project"])
        for st in base["steps"]:
            for e in st["edits"]:
                project.apply_edit(st2, e)
        scn["followup"] = {
            "kind": rng.choice(["seq", "par"]),
            "step": {"edits": [project.gen_edit(rng, st2) for _ in range(rng.randint(1, 2))], "gap_s": 2.0},
        }
    return scn


_par_cases: list[dict[str, Any]] | None = None
CORPUS_FILES = ("check-incremental.test", "check-modules.test", "check-modules-fast.test", "check-serialize.test", "check-classes.test",
                "check-generics.test", "check-protocols.test", "check-dataclasses.test", "check-newsemanal.test", "check-overloading.test",
                "check-type-aliases.test", "check-recursive-types.test", "check-namedtuple.test", "check-typeddict.test", "check-enum.test")


def par_cases() -> list[dict[str, Any]]:
    global _par_cases
    if _par_cases is None:
        out = []
        for fn in CORPUS_FILES:
            try:
                cs = corpus.load_file(fn)
            except OSError:
                continue
            for c in cs:
                nm = c["name"]
                if nm.endswith(("_no_parallel", "_no_native_parse")):
                    continue  # documented as unsupported in parallel mode / by the native parser; the suite skips them too
                nfiles = sum(1 for p in c["steps"][0] if p.endswith((".py", ".pyi")) and p not in ("builtins.pyi", "typing.pyi", "_typeshed.pyi"))
                if corpus.usable(c) and nfiles >= 2 and all(f is None for f in c["flags"][1:]) and all(a is None for a in c["argv"][1:]):
                    if any("--no-incremental" in t or "--cache-dir" in t or "-n" == t or "--no-local-partial-types" in t for t in (c["flags"][0] or [])):
                        continue
                    out.append(c)
        _par_cases = out
    return _par_cases


def gen_corpus(k: int, tier: str) -> dict[str, Any]:
    cases = par_cases()
    rng = kit.family_rng(PROP, "corpus", k)
    c = cases[k % len(cases)]
    trees = corpus.trees_of(c)
    steps = [{"edits": corpus.delta(trees[i], trees[i + 1]), "gap_s": 2.0, "run": False} for i in range(len(trees) - 1)]
    cfg = dict(rng.choice([histsim.STORE_CONFIGS[0], histsim.STORE_CONFIGS[2], histsim.STORE_CONFIGS[1]]))
    cfg["extra_flags"] = corpus.step_flags(c, 0)
    scn: dict[str, Any] = {"files": trees[0], "argv": corpus.step_argv(c, 0), "config": cfg, "steps": steps, "case": c["file"] + "::" + c["name"]}
    scn["mode"] = rng.choice(["warm_seq", "warm_par"]) if steps else "cold"
    scn["par"] = {"workers": rng.choice([2, 2, 3, 4]), "sched_seed": rng.randrange(1 << 30), "policy": rng.choice(POLICIES)}
    return scn


CYC_BASE = 700000


def gen_cyc(k: int) -> dict[str, Any]:
    """Hand-shaped members: two or three disjoint import cycles below one entry module, a store with two or three
    shards and two or three workers, so that different workers write the records of multi-module SCCs into the
    same shards at the same time; four schedule seeds per project. Every module has an error in a function
    body (reported by the implementation phase)."""
    proj, sched = divmod(k, 4)
    rng = kit.family_rng(PROP, "cyc", proj)
    files: dict[str, str] = {}
    roots = []
    for c in range(rng.choice([2, 2, 3])):
        size = rng.choice([2, 2, 3])
        names = [f"{rng.choice('pqrstuvw')}{rng.choice('abcdefgh')}{c}{j}" for j in range(size)]
        for j, name in enumerate(names):
            nxt = names[(j + 1) % size]
            files[name + ".py"] = f"import {nxt}\ndef f{j}() -> int:\n    return {nxt}.f{(j + 1) % size}() + ''\n"
        roots.append(names[0])
    files["main.py"] = "".join(f"import {r}\n" for r in roots)
    cfg = {"store": "sqlite", "shards": rng.choice([2, 2, 3]), "format": "ff"}
    srng = kit.family_rng(PROP, "cyc-sched", k)
    return {"files": files, "argv": ["main.py"], "config": cfg, "steps": [], "mode": "cold", "cyc": proj,
            "par": {"workers": rng.choice([2, 2, 3]), "sched_seed": srng.randrange(1 << 30), "policy": srng.choice(POLICIES)}}


PAIR_BASE = 800000


def gen_pair(k: int) -> dict[str, Any]:
    """Hand-shaped members: two to four independent leaf modules whose interfaces change in the same step, each
    with an unchanged dependant whose diagnostics depend on that interface; warm parallel run (the cache was
    warmed sequentially or by a parallel run) under policies that deliver several replies in one round."""
    proj, sched = divmod(k, 4)
    rng = kit.family_rng(PROP, "pair", proj)
    n = rng.choice([2, 2, 3, 4])
    files: dict[str, str] = {}
    edits = []
    for j in range(n):
        leaf, dep = f"l{j}", f"d{j}"
        files[leaf + ".py"] = f"def f() -> int:\n    return {j}\n"
        files[dep + ".py"] = f"import {leaf}\ndef g() -> int:\n    return {leaf}.f()\nx: int = {leaf}.f()\n"
        if j < 2 or rng.random() < 0.7:
            edits.append({"e": "write", "path": leaf + ".py", "text": f"def f() -> str:\n    return '{j}'\n"})
    files["main.py"] = "".join(f"import d{j}\n" for j in range(n))
    cfg = dict(rng.choice([c for c in histsim.STORE_CONFIGS if c["format"] == "ff"]))
    srng = kit.family_rng(PROP, "pair-sched", k)
    pol = srng.choice([{"hold_replies": True}, {"hold_replies": True}, {"deliver_weight": 0.1}, {}])
    return {"files": files, "argv": ["main.py"], "config": cfg, "steps": [{"edits": edits, "gap_s": 2.0, "run": False}],
            "mode": rng.choice(["warm_seq", "warm_par"]), "pair": proj,
            "par": {"workers": rng.choice([2, 3, 4]), "sched_seed": srng.randrange(1 << 30), "policy": pol},
            "followup": {"kind": srng.choice(["seq", "par"]), "step": {"edits": [{"e": "write", "path": "main.py", "text": files["main.py"] + "# again\n"}], "gap_s": 2.0}}}


def task(item: tuple[int, str]) -> dict[str, Any]:
    k, tier = item
    scn = gen_pair(k - PAIR_BASE) if k >= PAIR_BASE else gen_cyc(k - CYC_BASE) if k >= CYC_BASE else gen_corpus(k - 500000, tier) if k >= 500000 else gen(k, tier)
    r = evaluate(scn, f"s{k}")
    info = r["info"]
    p = info.get("par") or {}
    out: dict[str, Any] = {
        "k": k,
        "evaluations": 1,
        "sim_time_s": r["sim_time_s"],
        "faults": {"policy_" + (",".join(sorted(scn["par"]["policy"])) or "uniform"): 1, "workers_%d" % scn["par"]["workers"]: 1, "mode_" + scn["mode"]: 1},
        "probes": dict(p.get("probes") or {}),
        "nontrivial": [],
        "interleavings": [p["trace_digest"]] if p.get("trace_digest") else [],
        "assignment": p.get("assignment_digest"),
        "decisions": p.get("n_decisions", 0),
    }
    if len(p.get("workers_used") or []) >= 2:
        out["nontrivial"] = [kit.digest([scn.get("project") or scn.get("case") or scn.get("files"), scn["steps"], scn["par"], scn["mode"]])]
        out["probes"]["schedules_with_2plus_active_workers"] = 1
    if "case" in scn:
        out["faults"]["source_corpus"] = 1
    if k % 40 == 0 and "project" in scn:
        out["sample"] = {"config": scn["config"], "mode": scn["mode"], "par": scn["par"], "modules": sorted(scn["project"]["mods"]), "roots": scn["project"]["roots"], "decisions": p.get("n_decisions")}
    elif CYC_BASE > k >= 500000 and k % 100 == 0:
        out["sample"] = {"case": scn["case"], "mode": scn["mode"], "par": scn["par"], "decisions": p.get("n_decisions")}
    if info.get("par_error"):
        raise kit.HarnessError("scheduler summary failed: " + info["par_error"])
    if r["violation"] is not None:
        out["violation"] = {"scenario": scn, "violation": r["violation"], "script": p.get("decisions"), "family": "pair" if k >= PAIR_BASE else "cyc" if k >= CYC_BASE else "corpus" if k >= 500000 else "model", "k": k}
    return out


def det_task(item: tuple[int, str]) -> dict[str, Any]:
    """Determinism self-test: the same scenario twice gives the same decision trace and output."""
    k, tier = item
    scn = gen(k, tier)
    scn.pop("followup", None)
    a = evaluate(scn, f"d{k}a")
    b = evaluate(scn, f"d{k}b")
    pa, pb = a["info"].get("par") or {}, b["info"].get("par") or {}
    same = pa.get("trace_digest") == pb.get("trace_digest") and pa.get("decisions") == pb.get("decisions") and (a["violation"] is None) == (b["violation"] is None)
    return {"k": k, "same": same, "a": pa.get("trace_digest"), "b": pb.get("trace_digest"), "n": pa.get("n_decisions")}


def minimise(v: dict[str, Any]) -> dict[str, Any]:
    scn, viol, script = v["scenario"], v["violation"], v.get("script")

    def still(s2: dict[str, Any], sc: list[int] | None) -> bool:
        try:
            r = evaluate(s2, "m", script=sc)
        except kit.HarnessError:
            return False
        return r["violation"] is not None and r["violation"]["kind"] == viol["kind"]

    cur = copy.deepcopy(scn)
    sc = list(script) if script else None
    if sc is not None and not still(cur, sc):
        sc = None  # the recorded script does not reproduce (e.g. violation in a later run): keep the seed
    if sc is not None:
        lo, hi = 0, len(sc)
        while lo < hi:  # shortest prefix (then default choices) that still fails
            mid = (lo + hi) // 2
            if still(cur, sc[:mid]):
                hi = mid
            else:
                lo = mid + 1
        if still(cur, sc[:hi]):
            sc = sc[:hi]
    if "followup" in cur and viol["kind"] != "cache_left_by_parallel_run_stale":
        s2 = {k_: v_ for k_, v_ in cur.items() if k_ != "followup"}
        if still(s2, sc):
            cur = s2
    for mid_ in sorted((cur.get("project") or {"mods": {}})["mods"], reverse=True):
        if mid_ == "m0":
            continue
        s2 = copy.deepcopy(cur)
        s2["project"]["mods"][mid_]["exists"] = False
        s2["project"]["roots"] = [r for r in s2["project"]["roots"] if r != mid_]
        for st in s2["steps"]:
            st["edits"] = [e for e in st["edits"] if e["mod"] != mid_]
        if still(s2, None if sc is None else sc):
            cur = s2
    return {"scenario": cur, "violation": viol, "script": sc}


def finalise_task(v: dict[str, Any]) -> dict[str, Any]:
    small = minimise(v)
    r = evaluate(small["scenario"], "fin", script=small["script"])
    if r["violation"] is None or r["violation"]["kind"] != v["violation"]["kind"]:
        r = evaluate(v["scenario"], "fin", script=v.get("script"))
        if r["violation"] is None or r["violation"]["kind"] != v["violation"]["kind"]:
            r = evaluate(v["scenario"], "fin")
            if r["violation"] is None or r["violation"]["kind"] != v["violation"]["kind"]:
                raise kit.HarnessError(f"violation did not reproduce: {v['violation']}")
            small = {"scenario": v["scenario"], "script": None}
        else:
            small = v
    return {"scenario": small["scenario"], "script": small.get("script"), "violation": r["violation"], "family": v.get("family"), "k": v.get("k")}


def match_known(v: dict[str, Any], known: list[dict[str, Any]]) -> dict[str, Any] | None:
    for e in known:
        m = e.get("match", {})
        if "case" in m:
            if v["scenario"].get("case") == m["case"]:
                return e
            continue
        if m.get("kind") == v["violation"]["kind"]:
            return e
    return None


def run(tier: str) -> int:
    rep = kit.Report(PROP, tier, "exploration")
    rep.rule = (
        "scenario = generated project (3-10 modules, several entry points, cycles) x store config x N in {1,2,3,4,5,8} x "
        "schedule seed x policy (uniform, deliver-late, deliver-early, hold replies, starve workers) x cache state (cold, "
        "warm after edit: warmed sequentially or by a parallel run); optional follow-up edit + sequential/parallel warm run. "
        "evaluations = scheduled parallel builds judged against the sequential build. Non-trivial = >=2 workers actually "
        "processed SCC batches; distinct by digest of (project, steps, schedule parameters). distinct_interleavings = "
        "distinct normalised decision traces (actor, op kind, record kind)*."
    )
    rep.real_components = ["mypy.main.main -> build.build(num_workers=N): process_graph, submit_to_workers, wait_for_done_workers", "mypy.build_worker.worker.main/serve in real forked processes", "real AF_UNIX sockets + mypy.ipc framing", "both metastores (real sqlite3 with WAL)"]
    rep.stub_components = ["OS scheduler (workers parked at gates, released one at a time)", "select() in the coordinator (replaced by the controller)", "process launcher: pre-forked slots instead of exec of `python -m mypy.build_worker`", "sqlite shard write lock (simulated: a write is not enabled while another worker holds an uncommitted write on that shard)", "typeshed (lib-stub + fixture builtins)"]
    rep.assumptions = [
        "replies fit in the socket buffer (a worker never blocks inside send)",
        "thread pools inside a process (parse, broadcast, connect) are outcome-deterministic; verified by the determinism self-test on every run",
    ]
    n = 90 if tier == "quick" else FAMILY["model"]
    n_det = 6 if tier == "quick" else 40
    known = kit.load_known_findings(PROP)
    known_soft = kit.load_known_findings("C02")
    det, _ = kit.run_pool(det_task, [(k, tier) for k in kit.sample_indices(PROP, "det", FAMILY["model"], n_det)])
    bad = [d for d in det if not d["same"]]
    if bad:
        raise kit.HarnessError(f"determinism self-test failed: {bad[:3]}")
    n_corpus = 60 if tier == "quick" else len(par_cases())
    items = [(k, tier) for k in kit.sample_indices(PROP, "model", FAMILY["model"], n)] + [(500000 + k, tier) for k in kit.sample_indices(PROP, "corpus", len(par_cases()), n_corpus)]
    items += [(CYC_BASE + k, tier) for k in kit.sample_indices(PROP, "cyc", FAMILY["cyc"], 40 if tier == "quick" else FAMILY["cyc"])]
    items += [(PAIR_BASE + k, tier) for k in kit.sample_indices(PROP, "pair", FAMILY["pair"], 32 if tier == "quick" else FAMILY["pair"])]
    if os.environ.get("VERIF_C07_ONLY") == "cyc":
        items = [it_ for it_ in items if PAIR_BASE > it_[0] >= CYC_BASE]
    if os.environ.get("VERIF_C07_ONLY") == "pair":
        items = [it_ for it_ in items if it_[0] >= PAIR_BASE]
    results, skipped = kit.run_pool(task, items, budget_s=900 if tier == "quick" else 3 * 3600)
    results.sort(key=lambda r: r["k"])
    by_class: dict[str, list[dict[str, Any]]] = {}
    assignments = set()
    total_dec = 0
    for r in results:
        rep.add_result(r)
        if r.get("assignment"):
            assignments.add(r["assignment"])
        total_dec += r.get("decisions", 0)
        if "violation" in r:
            v = r["violation"]
            key = v["violation"]["kind"] + ":" + str(v["violation"].get("classes", "")) + ":" + str(v["violation"].get("where", ""))
            if "case" in v["scenario"] and v["violation"]["kind"] not in SOFT:
                key += ":" + v["scenario"]["case"]
            by_class.setdefault(key, []).append(v)
    kit.dump_raw(PROP, tier, by_class)
    unknown: dict[str, list[dict[str, Any]]] = {}
    for cls, vs in sorted(by_class.items()):
        for v in vs:
            if v["violation"]["kind"] == "soft":
                es = kit.match_soft(v["violation"]["classes"], known_soft)
                if es is not None:
                    for e_ in es:
                        rep.known_finding(e_["what"])
                    rep.probes["soft_" + v["violation"]["classes"]] = rep.probes.get("soft_" + v["violation"]["classes"], 0) + 1
                    continue
            e = kit.match_member(v, known) or match_known(v, known)
            if e is not None:
                rep.known_finding(e["what"])
                continue
            unknown.setdefault(cls, []).append(v)
    for v in kit.finalise_classes(finalise_task, unknown):
        path = kit.write_replay(PROP, {"engine": "parsched", **v})
        rep.violation(path, f"{v['violation']['kind']} {v['violation'].get('where', '')} class={v['cls']} members={v['members'][:10]}")
    rep.extra["distinct_assignment_and_delivery_orders"] = len(assignments)
    rep.extra["scheduler_decisions"] = total_dec
    rep.extra["determinism_selftest"] = {"scenarios_run_twice": len(det), "mismatches": 0}
    rep.extra["skipped_for_budget"] = skipped
    rep.write()
    print(f"C07 {tier}: {rep.evaluations} scheduled parallel builds, {len(rep.nontrivial)} non-trivial, {len(rep.interleavings)} distinct traces, "
          f"{total_dec} decisions, {len(rep.violations)} violations, {len(rep.known)} known findings")
    return rep.exit_code()


def replay(path: str) -> int:
    with open(path) as f:
        rp = json.load(f)
    r = evaluate(rp["scenario"], "replay", script=rp.get("script"))
    print(json.dumps(r["violation"], indent=1, default=str)[:4000])
    if r["violation"] is not None:
        print(f"VIOLATION property={PROP} replay={path}")
        return 1
    print("replay: no violation")
    return 0
