"""C09 — changing options between runs never yields stale results.

Engine: sim/histsim.py, with the *option change* as the event between two runs that share
a cache directory.  For a program P and option sets A, B four runs are made:
    A on cache X (cold),  B on cache Y (cold),  B on X (warm after A),  A on Y (warm after B)
and warm(B|after A) must equal cold(B), warm(A|after B) must equal cold(A).

What is enumerated: the complete flag table, read at run time from the real parser
(`mypy.main.define_options()._actions`).  Every flag is either toggled or appears in the
evidence under `flags_not_toggled` with the reason.  Witness programs ("on programs where
that option changes the cold output"): every case of test-data/unit/check-*.test whose
`# flags:` line mentions the flag (those programs were written to be sensitive to it),
plus a kitchen-sink program.  Carriers: command line, and `[mypy]` / `[mypy-<module>]`
sections of a config file whose content changes between the runs.
"""

from __future__ import annotations

import glob
import json
import os
from typing import Any

from sim import corpus, histsim, kit, runner

PROP = "C09"

# flags that are never toggled, with the reason (accounted for in the evidence)
NOT_TOGGLED = {
    "help": "prints help and exits; no run",
    "version": "prints version and exits; no run",
    "config_file": "is the carrier of the config-file leg, not an option with a value of its own",
    "cache_dir": "selects the cache under test; the two runs must share it",
    "special-opts:python_executable": "needs another interpreter; environment-dependent",
    "special-opts:no_executable": "site-packages discovery is environment-dependent and disabled by the fixture seam",
    "no_silence_site_packages": "no site-packages in the simulated world",
    "custom_typing_module": "needs a purpose-made typing module",
    "custom_typeshed_dir": "typeshed is replaced by the fixture seam",
    "shadow_file": "needs file pairs; C18's territory",
    "pdb": "interactive",
    "install_types": "needs network/pip",
    "non_interactive": "only with --install-types",
    "junit_xml": "writes a report file, no diagnostics",
    "junit_format": "only with --junit-xml",
    "special-opts:find_occurrences": "experimental, prints and exits",
    "special-opts:modules": "changes the set of sources, not an option of the check",
    "special-opts:packages": "changes the set of sources, not an option of the check",
    "special-opts:command": "changes the set of sources, not an option of the check",
    "num_workers": "parallel mode is C07's subject",
    "mypyc_annotation_file": "mypyc only",
    "mypyc_skip_c_generation": "mypyc only",
    "quickstart_file": "needs a daemon-produced file",
    "special-opts:cache_map": "bazel mode, needs explicit cache paths",
    "bazel": "bazel mode changes path semantics of the cache itself",
    "package_root": "bazel mode",
    "timing_stats": "writes a stats file",
    "line_checking_stats": "writes a stats file",
    "fast_exit": "forced off by the in-process run (clean_exit)",
    "test_env": "test-only switch",
    "incremental": "--no-incremental disables the cache the property is about (run B would not share it)",
    "skip_version_check": "no second mypy version in the sandbox",
    "raise_exceptions": "debug aid, no diagnostics effect without a crash",
    "show_traceback": "debug aid, no diagnostics effect without a crash",
    "dump_graph": "prints the graph and exits instead of checking",
    "dump_deps": "debug dump",
    "dump_type_stats": "debug dump",
    "dump_inference_stats": "debug dump",
    "dump_build_stats": "debug dump to stderr with timings",
    "verbosity": "log lines with timings on stderr",
    "export_ref_info": "writes extra cache files only",
    "scripts_are_modules": "changes module naming of script sources",
    "explicit_package_bases": "changes module naming of sources (C18)",
    "exclude": "changes the set of sources",
    "exclude_gitignore": "changes the set of sources",
    "fast_module_lookup": "performance switch of source discovery",
    "namespace_packages": "changes module discovery of sources (C18)",
    "warn_unused_configs": "reports on the config file itself",
}
for _r in ("any-exprs", "cobertura-xml", "html", "linecount", "linecoverage", "lineprecision", "txt", "xml", "xslt-html", "xslt-txt"):
    NOT_TOGGLED[f"special-opts:{_r}_report"] = "report generation (needs lxml / writes files, no diagnostics)"

# values for flags that take one
VALUES: dict[str, list[list[str]]] = {
    "follow_imports": [["--follow-imports=silent"], ["--follow-imports=skip"], ["--follow-imports=error"]],
    "special-opts:python_version": [["--python-version", "3.10"], ["--python-version", "3.13"]],
    "platform": [["--platform", "win32"], ["--platform", "darwin"]],
    "always_true": [["--always-true", "FLAG"], ["--always-true", "MYPY"]],
    "always_false": [["--always-false", "FLAG"]],
    "untyped_calls_exclude": [["--disallow-untyped-calls", "--untyped-calls-exclude", "m"]],
    "deprecated_calls_exclude": [["--deprecated-calls-exclude", "m"]],
    "disable_error_code": [["--disable-error-code", "assignment"], ["--disable-error-code", "attr-defined"], ["--disable-error-code", "arg-type"]],
    "enable_error_code": [["--enable-error-code", "ignore-without-code"], ["--enable-error-code", "truthy-bool"], ["--enable-error-code", "redundant-expr"], ["--enable-error-code", "possibly-undefined"], ["--enable-error-code", "unused-awaitable"], ["--enable-error-code", "explicit-override"], ["--enable-error-code", "mutable-override"], ["--enable-error-code", "unimported-reveal"], ["--enable-error-code", "redundant-self"]],
    "enable_incomplete_feature": [["--enable-incomplete-feature", "PreciseTupleTypes"], ["--enable-incomplete-feature", "InlineTypedDict"]],
    "many_errors_threshold": [["--soft-error-limit", "1"]],
    "output": [["-O", "json"]],
    "sqlite_num_shards": [["--sqlite-num-shards", "1"], ["--sqlite-num-shards", "4"]],
}

KITCHEN = {
    "main.py": '''import sys
import pk.mid.leaf
import vend.x.speedups
from vend.y import speedups
from typing import Any, Optional, cast, TYPE_CHECKING
import m
from m import helper, Reexported
import missing_mod
from untyped_lib import something
FLAG = False
def untyped(a, b=None):
    return a
def half(a: int, b):
    return a
def ret_any(x: Any) -> int:
    return x
def impl_opt(x: int = None) -> int:
    return 1
def no_ret(x: int) -> int:
    if x:
        return 1
y = cast(int, 1)
z: int = 1  # type: ignore
w: int = 'x'  # type: ignore
def unreach(x: int) -> int:
    if isinstance(x, int):
        return 1
    return 2
class A(m.Base): pass
class B(missing_mod.X): pass
q = untyped(1)
def caller() -> None:
    untyped(1)
    m.untyped_in_m(1)
def eq(a: int, b: str) -> bool:
    return a == b
def none_eq(a: int) -> bool:
    return a == None
if sys.platform == "win32":
    win: int = 'x'
if sys.version_info >= (3, 13):
    new: int = 'x'
if FLAG:
    flagged: int = 'x'
def redefine() -> None:
    v = 1
    v = 'x'
def ctx(a: str) -> int:
    return a
class C:
    def meth(self, a: str) -> int:
        return a
glob = []
def bytes_like(b: bytes) -> None: pass
bytes_like(bytearray(b'x'))
def dec(f): return f
@dec
def decorated(x: int) -> int: return x
def explicit_any(x: Any) -> None: pass
def generics(x: list) -> None: pass
def trunc(x: Optional[int]) -> int:
    return x + 1
reveal_type(helper)
def concat(a: str) -> str:
    return "a" + 1
async def coro() -> int: return 1
async def use() -> None:
    coro()
def possibly(b: bool) -> int:
    if b:
        u = 1
    return u
def truthy(c: C) -> None:
    if c:
        pass
def redundant(x: int) -> None:
    if isinstance(x, int) or x:
        pass
''',
    "m.py": '''from typing import Any
from n import Reexported
class Base: pass
def helper(x: int) -> str:
    return x
m_bad: int = 'x'
def untyped_in_m(a):
    return a
glob_m = {}
''',
    "n.py": "class Reexported: pass\n",
    "pk/__init__.py": "",
    "pk/mid/__init__.py": "",
    "pk/mid/leaf.py": "import missing_leaf_dep\nfrom missing_leaf_dep import thing\nleaf_bad: int = 'x'\ndef leaf_untyped(a):\n    return a\n",
    "untyped_lib.pyi": "from typing import Any\nsomething: Any\ndef __getattr__(name: str) -> Any: ...\n",
}


def kitchen_files() -> dict[str, str]:
    files = dict(KITCHEN)
    fx = os.path.join(corpus.UNIT, "fixtures")
    with open(os.path.join(fx, "tuple.pyi")) as f:
        files["builtins.pyi"] = f.read()
    with open(os.path.join(fx, "typing-async.pyi")) as f:
        files["typing.pyi"] = f.read()
    return files


def flag_table() -> tuple[list[dict[str, Any]], dict[str, str]]:
    """Every option of the real parser -> toggles; plus the not-toggled accounting."""
    import argparse

    import mypy.main as mm

    parser, _, _ = mm.define_options()
    toggles: list[dict[str, Any]] = []
    skipped: dict[str, str] = {}
    seen_dest: set[str] = set()
    for a in parser._actions:
        if not a.option_strings:
            continue
        flag = max(a.option_strings, key=len)
        dest = a.dest
        if dest in NOT_TOGGLED:
            skipped[flag] = NOT_TOGGLED[dest]
            continue
        if isinstance(a, (argparse._StoreTrueAction, argparse._StoreFalseAction)):
            toggles.append({"flag": flag, "dest": dest, "args": [flag], "bool": isinstance(a, argparse._StoreTrueAction)})
        elif dest in VALUES:
            if dest in seen_dest:
                continue
            for v in VALUES[dest]:
                toggles.append({"flag": flag, "dest": dest, "args": v, "bool": None})
        else:
            skipped[flag] = "no value table entry for this valued flag (not toggled)"
        seen_dest.add(dest)
    return toggles, skipped


_corpus_cache: list[dict[str, Any]] | None = None


def flagged_cases() -> list[dict[str, Any]]:
    global _corpus_cache
    if _corpus_cache is None:
        out = []
        for path in sorted(glob.glob(os.path.join(corpus.UNIT, "check-*.test"))):
            for c in corpus.load_file(os.path.basename(path)):
                if c["flags"][0] and corpus.usable(c) and len(c["steps"]) == 1:
                    out.append(c)
        _corpus_cache = out
    return _corpus_cache


STORE_FLAGS = ("--sqlite-cache", "--no-sqlite-cache", "--sqlite-num-shards", "--fixed-format-cache", "--no-fixed-format-cache", "--cache-dir", "--cache-fine-grained")


def build_pairs(tier: str) -> tuple[list[dict[str, Any]], dict[str, str], dict[str, int]]:
    """(program, A, B) triples."""
    toggles, skipped = flag_table()
    cases = flagged_cases()
    by_flag: dict[str, list[dict[str, Any]]] = {}
    for c in cases:
        for t in c["flags"][0]:
            if t.startswith("-"):
                by_flag.setdefault(t.split("=")[0], []).append(c)
    rng = kit.rng_for(PROP, "pairs")
    pairs: list[dict[str, Any]] = []
    witnesses: dict[str, int] = {}
    per_flag = 3 if tier == "quick" else 40
    for t in toggles:
        flag = t["flag"]
        cands = by_flag.get(flag, [])
        picked = cands if len(cands) <= per_flag else rng.sample(cands, per_flag)
        witnesses[" ".join(t["args"])] = len(picked) + 1
        # kitchen sink: base options empty
        pairs.append({"prog": "kitchen", "files": kitchen_files(), "argv": ["main.py"], "A": [], "B": list(t["args"]), "toggle": t, "carrier": "cmdline"})
        for c in picked:
            base = [x for x in c["flags"][0]]
            # A = the case's flags without this one, B = the case's flags
            A = [x for x in base if x.split("=")[0] != flag]
            if flag in ("--always-true", "--always-false", "--disable-error-code", "--enable-error-code", "--enable-incomplete-feature", "--python-version", "--platform", "--soft-error-limit", "--untyped-calls-exclude", "--deprecated-calls-exclude", "--sqlite-num-shards", "-O", "--output", "--follow-imports"):
                # valued flag written as two tokens: drop flag and its value
                A = []
                skip = False
                for i_, x in enumerate(base):
                    if skip:
                        skip = False
                        continue
                    if x == flag:
                        skip = True
                        continue
                    if x.split("=")[0] == flag:
                        continue
                    A.append(x)
            if A == base:
                continue
            pairs.append({"prog": c["file"] + "::" + c["name"], "files": c["steps"][0], "argv": corpus.step_argv(c, 0), "A": A, "B": base, "toggle": t, "carrier": "cmdline"})
    # whole flag line on/off for a sample of all flagged cases
    n_whole = 120 if tier == "quick" else len(cases)
    for c in (cases if len(cases) <= n_whole else rng.sample(cases, n_whole)):
        pairs.append({"prog": c["file"] + "::" + c["name"], "files": c["steps"][0], "argv": corpus.step_argv(c, 0), "A": [], "B": list(c["flags"][0]), "toggle": {"flag": "<flags line>", "dest": "*", "args": list(c["flags"][0])}, "carrier": "cmdline"})
    # config-file carrier: boolean options through sections of several shapes (kitchen sink), with and without
    # background flags that stay the same in both runs
    shapes = ["mypy", "mypy-m", "mypy-pk.*", "mypy-pk.*.leaf", "mypy-*.leaf", "mypy-main", "mypy-vend.*.speedups", "mypy-missing_mod", "mypy-vend.*"]
    import_opts = ("ignore_missing_imports", "follow_imports", "follow_imports_for_stubs", "follow_untyped_imports")
    backgrounds: list[list[str]] = [[], ["--debug-cache"]]
    j = 0
    for t in toggles:
        if t["dest"].startswith("special-opts"):
            continue
        if t["bool"] is None:
            if len(t["args"]) == 1 and "=" in t["args"][0]:
                val = t["args"][0].split("=", 1)[1]
            else:
                continue
        else:
            val = "True" if t["bool"] else "False"
        use = shapes if (tier == "thorough" or t["dest"] in import_opts) else [shapes[0], shapes[1 + j % (len(shapes) - 1)], shapes[1 + (j + 2) % (len(shapes) - 1)]]
        j += 1
        for section in use:
            for bg in backgrounds if (tier == "thorough" or section != "mypy") else [[]]:
                cfgB = f"[{section}]\n{t['dest']} = {val}\n" if section == "mypy" else f"[mypy]\n[{section}]\n{t['dest']} = {val}\n"
                pairs.append({"prog": "kitchen", "files": kitchen_files(), "argv": ["main.py"], "A": list(bg), "B": list(bg), "toggle": t,
                              "carrier": "config:" + section + (":bg" if bg else ""), "cfgA": "[mypy]\n", "cfgB": cfgB})
    # global error-code toggles while a per-module section carries its own error-code list (both runs)
    per_module_bg = "[mypy]\n[mypy-m]\ndisable_error_code = return-value\n[mypy-pk.mid.leaf]\nenable_error_code = truthy-bool\n"
    for flag, dest in (("--disable-error-code", "disable_error_code"), ("--enable-error-code", "enable_error_code")):
        for code in ("assignment", "import-not-found", "no-untyped-def", "attr-defined", "ignore-without-code", "redundant-expr"):
            t = {"flag": flag, "dest": dest, "args": [flag, code], "bool": None}
            for bg in backgrounds:
                pairs.append({"prog": "kitchen", "files": kitchen_files(), "argv": ["main.py"], "A": list(bg) + ["--disallow-untyped-defs"], "B": list(bg) + ["--disallow-untyped-defs", flag, code],
                              "toggle": t, "carrier": "cmdline+per-module-bg" + (":bg" if bg else ""), "cfgA": per_module_bg, "cfgB": per_module_bg})
            pairs.append({"prog": "kitchen", "files": kitchen_files(), "argv": ["main.py"], "A": ["--disallow-untyped-defs"], "B": ["--disallow-untyped-defs"], "toggle": t,
                          "carrier": "config:mypy+per-module-bg", "cfgA": per_module_bg, "cfgB": per_module_bg.replace("[mypy]\n", f"[mypy]\n{dest} = {code}\n", 1)})
    return pairs, skipped, witnesses


def drop_store_flags(flags: list[str]) -> list[str]:
    out = []
    skip = False
    for x in flags:
        if skip:
            skip = False
            continue
        if x in ("--cache-dir", "--sqlite-num-shards") :
            skip = True
            continue
        if x.split("=")[0] in STORE_FLAGS and x.split("=")[0] not in ("--sqlite-num-shards",):
            continue
        out.append(x)
    return out


def evaluate(pair: dict[str, Any], tag: str) -> dict[str, Any]:
    k = pair.get("cfg_index", 0)
    cfg = histsim.STORE_CONFIGS[k % len(histsim.STORE_CONFIGS)]
    files = dict(pair["files"])
    scn = {"files": files, "argv": pair["argv"], "config": dict(cfg), "steps": []}
    toggles_store = pair["toggle"]["dest"] in ("sqlite_cache", "sqlite_num_shards", "fixed_format_cache", "cache_fine_grained")
    if toggles_store:
        scn["config"] = {"store": "default", "shards": 0, "format": "ff"}
    h = histsim.History(scn, f"c09-{os.getpid()}-{tag}")
    out: dict[str, Any] = {"violation": None, "nontrivial": False, "runs": 0}
    try:
        def run(opts: list[str], cache: str, cfgtext: str | None) -> dict[str, Any]:
            extra = list(opts)
            if cfgtext is not None:
                h.world.advance(2.0)
                h.world.write("cfg.ini", cfgtext)
                extra = ["--config-file", "cfg.ini"] + extra
            if toggles_store:
                return h.run(cache, extra=extra)
            return h.run(cache, extra=drop_store_flags(extra))

        cA, cB = pair.get("cfgA"), pair.get("cfgB")
        coldA = run(pair["A"], "X", cA)
        coldB = run(pair["B"], "Y", cB)
        warmB = run(pair["B"], "X", cB)
        warmA = run(pair["A"], "Y", cA)
        out["runs"] = 4
        for r, nm in ((coldA, "cold A"), (coldB, "cold B"), (warmB, "warm B"), (warmA, "warm A")):
            if r["status"] not in (0, 1, 2):
                if "usage:" in r.get("stderr", "") or r["status"] == "exception":
                    out["skipped"] = f"{nm}: {str(r.get('stderr') or r.get('traceback'))[-300:]}"
                    return out
                raise kit.HarnessError(f"{nm} abnormal: {r['status']} {r.get('stderr', '')[-500:]}")
        out["nontrivial"] = not runner.same_observable(coldA, coldB)
        for warm, cold, direction in ((warmB, coldB, "A->B"), (warmA, coldA, "B->A")):
            if runner.same_observable(warm, cold):
                continue
            if runner.soft_difference(warm, cold) is not None:
                continue
            out["violation"] = {"kind": "stale_after_option_change", "direction": direction, "diff": runner.first_difference(warm, cold), "rechecked": warm.get("rechecked")}
            break
    finally:
        out["sim_time_s"] = h.world.sim_advance_s
        h.close()
    return out


def task(item: tuple[int, dict[str, Any]]) -> dict[str, Any]:
    k, pair = item
    pair = dict(pair, cfg_index=k)
    r = evaluate(pair, f"p{k}")
    tname = " ".join(pair["toggle"]["args"]) if pair["carrier"] == "cmdline" else pair["carrier"] + ":" + pair["toggle"]["dest"]
    out: dict[str, Any] = {
        "k": k,
        "evaluations": 1 if r["runs"] else 0,
        "sim_time_s": r.get("sim_time_s", 0.0),
        "faults": {"carrier_" + pair["carrier"].split(":")[0]: 1},
        "probes": {"toggle_changes_cold_output": 1 if r["nontrivial"] else 0, "pair_skipped_invalid_flag_combo": 1 if r.get("skipped") else 0},
        "nontrivial": [kit.digest([pair["prog"], pair["A"], pair["B"], pair["carrier"], pair.get("cfgB")])] if r["nontrivial"] else [],
        "interleavings": [],
        "toggle": tname,
        "toggle_nontrivial": r["nontrivial"],
    }
    if k < 3:
        out["sample"] = {"program": pair["prog"], "A": pair["A"], "B": pair["B"], "carrier": pair["carrier"]}
    if r["violation"] is not None:
        out["violation"] = {"pair": pair, "violation": r["violation"], "toggle": tname}
    return out


def match_known(v: dict[str, Any], known: list[dict[str, Any]]) -> dict[str, Any] | None:
    for e in known:
        m = e.get("match", {})
        if m.get("dest") == v["pair"]["toggle"]["dest"]:
            return e
    return None


def run(tier: str) -> int:
    rep = kit.Report(PROP, tier, "exploration")
    rep.rule = (
        "pairs (program, A, B): for EVERY flag of the real parser (table read at run time; the ones not toggled are listed "
        "with reasons) the kitchen-sink program with A={} B={flag}, plus corpus cases of check-*.test whose '# flags:' line "
        "contains the flag (A = line without it, B = line), plus whole flag lines on/off, plus boolean options through "
        "[mypy] and [mypy-m] config sections. Each pair = 4 runs (cold A, cold B, warm B after A, warm A after B) on a "
        "store config chosen round-robin. evaluations = pairs executed. Non-trivial = cold(A) != cold(B), distinct by "
        "(program, A, B, carrier)."
    )
    rep.real_components = ["mypy.main.process_options / config_parser", "mypy.options.OPTIONS_AFFECTING_CACHE / select_options_affecting_cache", "mypy.build.find_cache_meta / options_snapshot", "mypy.errors rendering of cached error tuples"]
    rep.stub_components = ["typeshed (lib-stub + per-case fixtures)"]
    rep.assumptions = ["flags listed under flags_not_toggled are outside this check, each with its reason"]
    pairs, skipped, witnesses = build_pairs(tier)
    known = kit.load_known_findings(PROP)
    results, nskip = kit.run_pool(task, list(enumerate(pairs)), budget_s=900 if tier == "quick" else 3 * 3600)
    results.sort(key=lambda r: r["k"])
    by_class: dict[str, list[dict[str, Any]]] = {}
    toggles_nontrivial: dict[str, int] = {}
    toggles_seen: dict[str, int] = {}
    for r in results:
        rep.add_result(r)
        toggles_seen[r["toggle"]] = toggles_seen.get(r["toggle"], 0) + 1
        if r["toggle_nontrivial"]:
            toggles_nontrivial[r["toggle"]] = toggles_nontrivial.get(r["toggle"], 0) + 1
        if "violation" in r:
            v = r["violation"]
            by_class.setdefault(v["pair"]["toggle"]["dest"] + ":" + v["pair"]["carrier"].split(":")[0], []).append(v)
    for cls, vs in sorted(by_class.items()):
        e = match_known(vs[0], known)
        if e is not None:
            rep.known_finding(f"{e['what']} (class {cls}, occurrences this run: {len(vs)})")
            continue
        v = min(vs, key=lambda x: len(json.dumps(x["pair"]["files"])))
        again = evaluate(v["pair"], "fin")
        if again["violation"] is None:
            raise kit.HarnessError(f"violation did not reproduce: {cls}")
        path = kit.write_replay(PROP, {"engine": "histsim/options", "pair": v["pair"], "violation": again["violation"]})
        rep.violation(path, f"{cls} {v['toggle']} occurrences={len(vs)}")
    rep.extra["flags_not_toggled"] = skipped
    rep.extra["toggles_executed"] = len(toggles_seen)
    rep.extra["toggles_with_a_nontrivial_witness"] = len(toggles_nontrivial)
    rep.extra["toggles_without_nontrivial_witness"] = sorted(set(toggles_seen) - set(toggles_nontrivial))
    rep.extra["skipped_for_budget"] = nskip
    rep.exhaustive = False
    rep.write()
    print(f"C09 {tier}: {rep.evaluations} pairs, {len(rep.nontrivial)} non-trivial, toggles {len(toggles_seen)} "
          f"({len(toggles_nontrivial)} with a witness that changes cold output), {len(rep.violations)} violations, {len(rep.known)} known findings")
    return rep.exit_code()


def replay(path: str) -> int:
    with open(path) as f:
        rp = json.load(f)
    r = evaluate(rp["pair"], "replay")
    print(json.dumps(r["violation"], indent=1, default=str)[:3000])
    if r["violation"] is not None:
        print(f"VIOLATION property={PROP} replay={path}")
        return 1
    print("replay: no violation")
    return 0
