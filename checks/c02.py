"""C02 — warm (incremental) runs report exactly what a cold run reports.

Engine: sim/histsim.py.  A scenario is a generated multi-module project, one of the
store x format configurations, and an edit history under a simulated mtime clock
(gaps, forward jumps, back-jumps, sub-second gaps); after every run step the warm
run (shared cache) is compared with a cold run (fresh cache) on the same files.
"""

from __future__ import annotations

import copy
import json
import os
from typing import Any

from sim import corpus, histsim, kit, project, runner

PROP = "C02"
FAMILY = {"hist": 900, "stall": 120}  # finite scenario families (members are independent of VERIF_SEED)
SOFT = ("soft",)  # known classes: keep looking for others


def judge(warm: dict[str, Any], cold: dict[str, Any]) -> dict[str, Any] | None:
    for r, name in ((warm, "warm"), (cold, "cold")):
        if r["status"] not in (0, 1, 2):
            return {"kind": f"{name}_run_abnormal", "status": r["status"], "detail": (r.get("traceback") or r.get("stderr", ""))[-1500:]}
    if runner.same_observable(warm, cold):
        return None
    soft = runner.soft_difference(warm, cold)
    if soft is not None:
        return {"kind": "soft", "classes": soft, "diff": runner.first_difference(warm, cold)}
    return {"kind": "warm_differs", "diff": runner.first_difference(warm, cold)}


def evaluate(scn: dict[str, Any], tag: str = "e") -> dict[str, Any]:
    h = histsim.History(scn, f"c02-{os.getpid()}-{tag}", stall_ok=scn.get("stall_ok", False))
    stats = {"runs": 0, "partial": 0, "all_fresh": 0, "all_stale": 0, "probes": {}}
    violation = None
    try:
        warm = h.run("warm")
        cold = h.cold()
        v = judge(warm, cold)
        stats["runs"] += 1
        if v is not None:
            v["step"] = -1
            violation = v
        for i, step in enumerate(scn["steps"]):
            if violation is not None and violation["kind"] not in SOFT:
                break
            changed = h.apply_step(step)
            if not step.get("run", True):
                continue
            warm = h.run("warm")
            cold = h.cold()
            stats["runs"] += 1
            graph = set(warm.get("graph") or [])
            rechecked = set(warm.get("rechecked") or [])
            if graph:
                if rechecked and rechecked != graph and (graph - rechecked):
                    stats["partial"] += 1
                elif not rechecked:
                    stats["all_fresh"] += 1
                else:
                    stats["all_stale"] += 1
            v = judge(warm, cold)
            if v is not None:
                v["step"] = i
                v["changed_files"] = changed
                if violation is None or v["kind"] not in SOFT:
                    violation = v
    finally:
        sim_time = h.world.sim_advance_s
        h.close()
    return {"violation": violation, "stats": stats, "sim_time_s": sim_time}


def swallowed_blocker_signature(v: dict[str, Any]) -> bool:
    """Cold run aborted with a blocker whose message was never printed, warm run did not abort."""
    d = v.get("diff", {})
    if d.get("what") != "status" or d.get("cold") != 2 or d.get("warm") not in (0, 1):
        return False
    cold_out = d.get("cold_out", "")
    return "errors prevented further checking" in cold_out and "syntax" not in cold_out.lower()


def vclass(v: dict[str, Any]) -> str:
    return v["kind"] + (":" + v["classes"] if v["kind"] == "soft" else "")


def minimise(scn: dict[str, Any], viol: dict[str, Any]) -> dict[str, Any]:
    def fails_steps(steps: list[dict[str, Any]]) -> bool:
        if not steps:
            return False
        s2 = dict(scn, steps=[dict(st) for st in steps])
        s2["steps"][-1]["run"] = True
        v = evaluate(s2, "m")["violation"]
        return v is not None and vclass(v) == vclass(viol)

    steps = kit.ddmin(scn["steps"], fails_steps, max_tests=40)
    if not steps:
        steps = scn["steps"]
    scn = dict(scn, steps=[dict(st) for st in steps])
    scn["steps"][-1]["run"] = True
    if "project" not in scn:
        return scn  # corpus-derived history: steps are already whole-file operations
    # then edits inside steps
    flat = [(i, j) for i, st in enumerate(scn["steps"]) for j in range(len(st["edits"]))]

    def build(sel: list[tuple[int, int]]) -> dict[str, Any]:
        s2 = copy.deepcopy(scn)
        for i, st in enumerate(s2["steps"]):
            st["edits"] = [e for j, e in enumerate(st["edits"]) if (i, j) in sel]
        return s2

    def fails_edits(sel: list[tuple[int, int]]) -> bool:
        v = evaluate(build(sel), "m")["violation"]
        return v is not None and vclass(v) == vclass(viol)

    sel = kit.ddmin(flat, fails_edits, max_tests=40)
    if sel and fails_edits(sel):
        scn = build(sel)
    # then drop modules not needed
    for mid in sorted(scn["project"]["mods"], reverse=True):
        if mid == "m0":
            continue
        s2 = copy.deepcopy(scn)
        s2["project"]["mods"][mid]["exists"] = False
        for st in s2["steps"]:
            st["edits"] = [e for e in st["edits"] if e["mod"] != mid]
        v = evaluate(s2, "m")["violation"]
        if v is not None and vclass(v) == vclass(viol):
            scn = s2
    return scn


def gen(k: int, tier: str, stall: bool = False) -> dict[str, Any]:
    rng = kit.family_rng(PROP, "hist", k, "stall" if stall else "")
    cfg = histsim.STORE_CONFIGS[k % len(histsim.STORE_CONFIGS)]
    scn = histsim.gen_history_scenario(rng, cfg=cfg, max_steps=6 if tier == "quick" else 12)
    if stall:
        scn["stall_ok"] = True
        for st in scn["steps"]:
            st["gap_s"] = rng.choice([0.0, 0.0, 0.2, 1.0])
    return scn


_inc_cases: list[dict[str, Any]] | None = None


def inc_cases() -> list[dict[str, Any]]:
    global _inc_cases
    if _inc_cases is None:
        out = []
        for fn in ("check-incremental.test", "check-serialize.test", "check-modules.test", "check-modules-case.test", "check-modules-fast.test"):
            try:
                cs = corpus.load_file(fn)
            except OSError:
                continue
            for c in cs:
                if corpus.usable(c) and len(c["steps"]) >= 2 and all(f is None for f in c["flags"][1:]) and all(a is None for a in c["argv"][1:]):
                    out.append(c)
        _inc_cases = out
    return _inc_cases


_shaped_cases: list[dict[str, Any]] | None = None


def shaped_cases() -> list[dict[str, Any]]:
    """Hand-written histories (sim/synthetic-incremental.test), one dependency mechanism each."""
    global _shaped_cases
    if _shaped_cases is None:
        path = os.path.join(os.path.dirname(os.path.abspath(__file__)), "..", "sim", "synthetic-incremental.test")
        _shaped_cases = [c for c in corpus.load_file(path) if corpus.usable(c) and len(c["steps"]) >= 2]
    return _shaped_cases


def shaped_family_size() -> int:
    return len(shaped_cases()) * len(corpus.TRANSFORMS) * len(histsim.STORE_CONFIGS)


def gen_shaped(k: int) -> dict[str, Any]:
    """Member k of the family "shaped": case x history transform x store/format configuration."""
    cases = shaped_cases()
    c = cases[k % len(cases)]
    tr = corpus.TRANSFORMS[(k // len(cases)) % len(corpus.TRANSFORMS)]
    cfg = dict(histsim.STORE_CONFIGS[(k // (len(cases) * len(corpus.TRANSFORMS))) % len(histsim.STORE_CONFIGS)])
    files0, steps = corpus.transform_history(c, tr, kit.family_rng(PROP, "shaped-tr", k))
    cfg["extra_flags"] = corpus.step_flags(c, 0)
    return {"files": files0, "argv": corpus.step_argv(c, 0), "config": cfg, "steps": steps, "case": c["file"] + "::" + c["name"], "transform": tr, "member": k}


def corpus_family_size() -> int:
    return len(inc_cases()) * len(corpus.TRANSFORMS)


def gen_corpus(k: int, tier: str) -> dict[str, Any]:
    """Member k of the finite family (incremental corpus case x history transform)."""
    cases = inc_cases()
    idx = k  # member index of the finite family
    c = cases[idx % len(cases)]
    tr = corpus.TRANSFORMS[(idx // len(cases)) % len(corpus.TRANSFORMS)]
    files0, steps = corpus.transform_history(c, tr, kit.family_rng(PROP, "corpus-tr", idx))
    cfg = dict(histsim.STORE_CONFIGS[idx % len(histsim.STORE_CONFIGS)])
    cfg["extra_flags"] = corpus.step_flags(c, 0)
    return {"files": files0, "argv": corpus.step_argv(c, 0), "config": cfg, "steps": steps, "case": c["file"] + "::" + c["name"], "transform": tr, "member": idx}


def task(item: tuple[str, int, str]) -> dict[str, Any]:
    fam, k, tier = item
    scn = gen_corpus(k, tier) if fam == "corpus" else gen_shaped(k) if fam == "shaped" else gen(k, tier, stall=(fam == "stall"))
    r = evaluate(scn, f"{fam}{k}")
    st = r["stats"]
    out: dict[str, Any] = {
        "family": fam,
        "k": k,
        "evaluations": st["runs"],
        "sim_time_s": r["sim_time_s"],
        "faults": {"clock_" + scn.get("clock_mode", "?"): 1},
        "probes": {"partial_cache_use_runs": st["partial"], "all_fresh_runs": st["all_fresh"], "all_stale_runs": st["all_stale"]},
        "nontrivial": [kit.digest(scn)] if st["partial"] else [],
        "interleavings": [],
    }
    if fam in ("corpus", "shaped"):
        out["faults"] = {"transform_" + scn["transform"]: 1}
    if k % 50 == 0 and fam not in ("corpus", "shaped"):
        out["sample"] = {"config": scn["config"], "steps": scn["steps"][:3], "modules": sorted(scn["project"]["mods"])}
    elif k % 100 == 0:
        out["sample"] = {"case": scn["case"], "transform": scn["transform"], "config": scn["config"], "steps": [[e["e"] + ":" + e.get("path", "") for e in st["edits"]] for st in scn["steps"]]}
    if r["violation"] is not None:
        v = r["violation"]
        if v["kind"] == "warm_differs" and swallowed_blocker_signature(v):
            # counterfactual replay: the same history with every syntax break healed
            healed = copy.deepcopy(scn)
            for m in healed["project"]["mods"].values():
                m["broken"] = False
            for st_ in healed["steps"]:
                st_["edits"] = [e for e in st_["edits"] if e["e"] != "broken"]
            cf = evaluate(healed, f"cfb{k}")["violation"]
            if cf is None or cf["kind"] != "warm_differs":
                v = dict(v, kind="swallowed_blocker_in_unbuilt_parent_package")
        if fam == "stall" and v["kind"] == "warm_differs":
            # counterfactual replay: the same history with the clock assumption restored
            cf = evaluate(dict(scn, stall_ok=False), f"cf{k}")["violation"]
            if cf is None or cf["kind"] != "warm_differs":
                v = dict(v, kind="stall_invisible_edit")
                out["faults"]["stalled_edit_invisible"] = 1
        out["violation"] = {"scenario": scn, "violation": v, "family": fam, "k": k}
    return out


def finalise_task(v: dict[str, Any]) -> dict[str, Any]:
    small = minimise(v["scenario"], v["violation"])
    again = evaluate(small, "fin")["violation"]
    if again is None or vclass(again) != vclass(v["violation"]):
        small = v["scenario"]
        again = evaluate(small, "fin")["violation"]
        if again is None or vclass(again) != vclass(v["violation"]):
            raise kit.HarnessError(f"violation did not reproduce: {v['violation']}")
    return {"scenario": small, "violation": again, "family": v["family"], "k": v.get("k")}


def run(tier: str) -> int:
    rep = kit.Report(PROP, tier, "exploration")
    rep.rule = (
        "scenario = generated project (3-9 modules: plain, package, namespace dir, stubs) x store/format config "
        "(round-robin over sqlite-16, sqlite-1, files x binary, JSON) x seeded edit history (slots, uses, imports "
        "incl. cycles, module add/delete, stub add/remove, syntax break/heal, inline config, touch) under a simulated "
        "mtime clock; each run step compares warm vs cold. evaluations = compared warm/cold run pairs. "
        "Non-trivial = history with >=1 run in which the cache was partly used (>=1 module loaded fresh and >=1 rechecked); "
        "distinct by digest of the scenario."
    )
    rep.real_components = ["mypy.main.main (CLI entry)", "mypy.build (load_graph, find_stale_sccs, write_cache*)", "mypy.metastore both stores (real sqlite3 on tmpfs)", "mypy.cache, mypy.fixup, semantic analysis, checker"]
    rep.stub_components = ["typeshed (test-data/unit/lib-stub + fixtures/dataclasses.pyi as builtins)", "wall clock (source and cache mtimes come from the SimClock)"]
    rep.assumptions = [
        "main campaign: a content-changing edit changes (int(mtime), size) of the file (what the project's own write_and_fudge_mtime helper guarantees); the stall family drops it",
        "edits happen between runs, never during one",
    ]
    n = 120 if tier == "quick" else FAMILY["hist"]
    n_stall = 24 if tier == "quick" else FAMILY["stall"]
    n_corpus = 150 if tier == "quick" else corpus_family_size()
    items = ([("hist", k, tier) for k in kit.sample_indices(PROP, "hist", FAMILY["hist"], n)]
             + [("stall", k, tier) for k in kit.sample_indices(PROP, "stall", FAMILY["stall"], n_stall)]
             + [("corpus", k, tier) for k in kit.sample_indices(PROP, "corpus", corpus_family_size(), n_corpus)])
    items += [("shaped", k, tier) for k in kit.sample_indices(PROP, "shaped", shaped_family_size(), 96 if tier == "quick" else shaped_family_size())]
    only = os.environ.get("VERIF_C02_FAMILY")
    if only:
        items = [it for it in items if it[0] == only]
    known = kit.load_known_findings(PROP)
    results, skipped = kit.run_pool(task, items, budget_s=600 if tier == "quick" else 3 * 3600)
    results.sort(key=lambda r: (r["family"], r["k"]))
    by_class: dict[str, list[dict[str, Any]]] = {}
    for r in results:
        rep.add_result(r)
        if "violation" in r:
            v = r["violation"]
            key = v["family"] + ":" + vclass(v["violation"])
            if v["family"] in ("corpus", "shaped") and v["violation"]["kind"] not in SOFT:
                key += ":" + v["scenario"]["case"] + ":" + v["scenario"]["transform"]
            by_class.setdefault(key, []).append(v)
    kit.dump_raw(PROP, tier, by_class)
    unknown: dict[str, list[dict[str, Any]]] = {}
    for cls, vs in sorted(by_class.items()):
        for v in vs:
            if v["violation"]["kind"] == "soft":
                es = kit.match_soft(v["violation"]["classes"], known)
                if es is not None:
                    for e in es:
                        rep.known_finding(e["what"])
                    rep.probes["soft_" + v["violation"]["classes"]] = rep.probes.get("soft_" + v["violation"]["classes"], 0) + 1
                    continue
            e = kit.match_member(v, known) or match_known(cls, v, known)
            if e is not None:
                rep.known_finding(e["what"])
                rep.probes["known_" + cls.split(":")[1]] = rep.probes.get("known_" + cls.split(":")[1], 0) + 1
                continue
            unknown.setdefault(cls, []).append(v)
    for v in kit.finalise_classes(finalise_task, unknown):
        path = kit.write_replay(PROP, {"engine": "histsim", **v})
        rep.violation(path, f"{v['violation']['kind']} class={v['cls']} members={v['members'][:10]}")
    rep.extra["skipped_for_budget"] = skipped
    rep.write()
    print(f"C02 {tier}: {rep.evaluations} warm/cold comparisons, {len(rep.nontrivial)} non-trivial histories, "
          f"{len(rep.violations)} violations, {len(rep.known)} known findings")
    return rep.exit_code()


def match_known(cls: str, v: dict[str, Any], known: list[dict[str, Any]]) -> dict[str, Any] | None:
    fam, kind = cls.split(":", 2)[:2]
    for e in known:
        m = e.get("match", {})
        if "case" in m:
            if fam in ("corpus", "shaped") and v["scenario"].get("case") == m["case"] and v["scenario"].get("transform") in m.get("transforms", []):
                return e
            continue
        if m.get("kind") == kind and m.get("family", fam) == fam:
            return e
    return None


def replay(path: str) -> int:
    with open(path) as f:
        rp = json.load(f)
    v = evaluate(rp["scenario"], "replay")["violation"]
    print(json.dumps(v, indent=1, default=str))
    if v is not None:
        print(f"VIOLATION property={PROP} replay={path}")
        return 1
    print("replay: no violation")
    return 0
