"""C16 — the daemon survives client faults; the channel delivers intact messages.

Engine: sim/ipcsim.py (real Server.serve / IPCServer / dmypy_util over a scripted
transport).  Families:
  A  early close at EVERY byte offset of a request frame          (enumerated)
  B  header / payload garbage table                               (enumerated)
  E  hang-up at every reply frame and at drawn reply byte offsets (enumerated)
  S  seeded sequences of client behaviours interleaved with edits (sampled)
  F  framing: frame sequences under drawn segmentations, both directions, plus
     ready_to_read on buffered frames                             (sampled, in-process)
Oracles: daemon alive after every faulty client; every well-formed request is
answered; answers equal those of a reference daemon that never saw the faulty
clients; no status file naming the daemon after any exit path it performs.
"""

from __future__ import annotations

import json
import os
import random
import struct
from typing import Any

from sim import ipcsim, kit

PROP = "C16"
FAMILY = {"S": 6000, "F": 20000, "C": 8000}  # finite sampled families (members are independent of VERIF_SEED)

BASE_FILES = {
    "a.py": "import b\nimport c\nx: int = b.f()\ny: str = c.K().attr\n",
    "b.py": "def f() -> int:\n    return 1\n",
    "c.py": "class K:\n    attr: str = ''\n",
}
VARIANTS = {
    "b.py": [
        "def f() -> int:\n    return 1\n",
        "def f() -> str:\n    return ''\n",
        "def f(z: int = 0) -> int:\n    return z\n",
        "def f() -> int:\n    return ''\n",
    ],
    "c.py": [
        "class K:\n    attr: str = ''\n",
        "class K:\n    attr: int = 0\n",
        "class K:\n    pass\n",
    ],
    "a.py": [
        "import b\nimport c\nx: int = b.f()\ny: str = c.K().attr\n",
        "import b\nx: str = b.f()\n",
        "import b\nimport c\nx: int = b.f(1)\ny: str = c.K().attr\nreveal_type(y)\n",
    ],
}
FILES = ["a.py", "b.py", "c.py"]


def req(cmd: str, **kw: Any) -> dict[str, Any]:
    d: dict[str, Any] = {"command": cmd, "is_tty": False, "terminal_width": 80}
    d.update(kw)
    return d


def check_req() -> dict[str, Any]:
    return req("check", files=list(FILES), export_types=False)


def recheck_req() -> dict[str, Any]:
    return req("recheck", export_types=False)


def client(r: dict[str, Any], **kw: Any) -> dict[str, Any]:
    d = {"op": "client", "kind": "request", "req": r}
    d.update(kw)
    return d


def raw(data: bytes, **kw: Any) -> dict[str, Any]:
    d = {"op": "client", "kind": "raw", "hex": data.hex()}
    d.update(kw)
    return d


def garbage_table() -> list[tuple[str, dict[str, Any]]]:
    """Family B: one faulty client per entry (name, op)."""
    good = json.dumps(check_req()).encode()
    t: list[tuple[str, dict[str, Any]]] = []
    t.append(("connect_and_close", raw(b"")))
    t.append(("connect_and_reset", raw(b"", end="reset")))
    t.append(("header_only", raw(struct.pack("!L", len(good)))))
    t.append(("header_longer_than_payload", raw(struct.pack("!L", len(good) + 7) + good)))
    t.append(("header_zero", raw(struct.pack("!L", 0))))
    t.append(("header_zero_then_payload", raw(struct.pack("!L", 0) + good)))
    t.append(("header_max", raw(struct.pack("!L", 2**32 - 1) + good)))
    t.append(("header_shorter_than_payload", raw(struct.pack("!L", len(good) - 5) + good)))
    t.append(("not_utf8", raw(ipcsim.frame(b"\xff\xfe\x00{\x80"))))
    t.append(("not_json", raw(ipcsim.frame(b"hello, daemon"))))
    t.append(("json_list", raw(ipcsim.frame(b"[1, 2, 3]"))))
    t.append(("json_string", raw(ipcsim.frame(b'"check"'))))
    t.append(("json_null", raw(ipcsim.frame(b"null"))))
    t.append(("json_deep", raw(ipcsim.frame(b"[" * 2000 + b"]" * 2000))))
    t.append(("no_command", client({"is_tty": False, "terminal_width": 80}, bogus=True)))
    t.append(("command_not_string", client(req("x") | {"command": 17}, bogus=True)))
    t.append(("command_null", client(req("x") | {"command": None}, bogus=True)))
    t.append(("unknown_command", client(req("frobnicate"), bogus=True)))
    t.append(("unknown_command_dunder", client(req("_response_metadata"), bogus=True)))
    t.append(("unknown_command_surrogate", client(req("\ud83d"), bogus=True)))
    t.append(("unknown_command_nonascii", client(req("ch\u00e9ck\u2603"), bogus=True)))
    t.append(("unknown_command_long", client(req("x" * 70000), bogus=True)))
    t.append(("unknown_command_empty", client(req(""), bogus=True)))
    t.append(("extra_surrogate_value", client(req("frobnicate", note="\udc80abc"), bogus=True)))
    t.append(("two_frames", client(recheck_req(), trailing_hex=ipcsim.request_bytes(req("status")).hex())))
    t.append(("trailing_garbage", client(req("status"), trailing_hex=b"\x00\x00".hex())))
    t.append(("trailing_partial_frame", client(req("status"), trailing_hex=ipcsim.request_bytes(check_req())[:9].hex())))
    t.append(("early_close_then_reset", raw(ipcsim.request_bytes(check_req())[:11], end="reset")))
    return t


def wrap(fault_ops: list[dict[str, Any]], edit_variant: int = 1) -> list[dict[str, Any]]:
    """A fixed envelope around faulty clients: state before, verified requests after."""
    return (
        [client(check_req(), cuts=[3, 17])]
        + fault_ops
        + [
            client(req("status")),
            {"op": "edit", "files": {"b.py": VARIANTS["b.py"][edit_variant]}},
            client(recheck_req()),
            client(check_req()),
            client(req("stop")),
        ]
    )


def assign_ids(ops: list[dict[str, Any]]) -> list[dict[str, Any]]:
    out = []
    for i, op in enumerate(ops):
        op = dict(op)
        op.setdefault("id", i)
        out.append(op)
    return out


def is_faulty(op: dict[str, Any]) -> bool:
    if op["op"] != "client":
        return False
    if op["kind"] == "raw":
        return True
    return bool(
        op.get("trailing_hex")
        or op.get("reply", "read") != "read"
        or op.get("fault_tag")
        or op.get("bogus")
    )


def reference_ops(ops: list[dict[str, Any]]) -> list[dict[str, Any]]:
    """The same history as seen by a daemon that only ever met well-behaved clients."""
    out = []
    for op in ops:
        if op["op"] != "client":
            out.append(op)
        elif op["kind"] == "request" and not op.get("bogus"):
            o = {k: v for k, v in op.items() if k not in ("cuts", "reply", "exc", "trailing_hex")}
            out.append(o)
    return out


def gen_sequence(rng: random.Random) -> dict[str, Any]:
    """Family S: swarm-style random sequence."""
    kinds = ["early_close", "garbage", "hangup", "chunked", "trailing", "unknown", "reset"]
    enabled = [k for k in kinds if rng.random() < 0.6] or [rng.choice(kinds)]
    timeout = rng.choice([None, None, 5, 60])
    n = rng.randint(4, 14)
    table = garbage_table()
    ops: list[dict[str, Any]] = []
    started = False
    for _ in range(n):
        r = rng.random()
        if r < 0.25:
            f = rng.choice(FILES)
            ops.append({"op": "edit", "files": {f: rng.choice(VARIANTS[f])}})
            if rng.random() < 0.15:
                f2 = rng.choice(FILES)
                ops[-1]["files"][f2] = rng.choice(VARIANTS[f2])
        elif r < 0.55:
            which = rng.random()
            if which < 0.5 or not started:
                r_ = check_req()
                started = True
            elif which < 0.8:
                r_ = recheck_req()
            else:
                r_ = req("status")
            c = client(r_)
            if "chunked" in enabled and rng.random() < 0.6:
                nbytes = len(ipcsim.request_bytes(r_))
                c["cuts"] = (
                    "bytes1"
                    if rng.random() < 0.2
                    else sorted(rng.sample(range(1, nbytes), rng.randint(1, min(5, nbytes - 1))))
                )
            if "hangup" in enabled and rng.random() < 0.4:
                c["reply"] = (
                    {"hangup_frames": rng.randint(0, 1)}
                    if rng.random() < 0.5
                    else {"hangup_bytes": rng.randint(0, 120)}
                )
                c["exc"] = rng.choice(["EPIPE", "ECONNRESET"])
            if "trailing" in enabled and rng.random() < 0.3:
                c["trailing_hex"] = rng.choice(
                    [b"\x00", b"\x00\x00\x00", ipcsim.request_bytes(req("status")), b"\x00\x00\x00\x02{}"]
                ).hex()
            ops.append(c)
        else:
            k = rng.choice(enabled)
            if k == "early_close" or k == "reset":
                fb = ipcsim.request_bytes(rng.choice([check_req(), recheck_req(), req("status")]))
                j = rng.randint(0, len(fb) - 1)
                c = raw(fb[:j], end="reset" if k == "reset" else "close")
                if rng.random() < 0.5 and j > 1:
                    c["cuts"] = sorted(rng.sample(range(1, j), min(j - 1, rng.randint(1, 3))))
                ops.append(c)
            elif k in ("garbage", "unknown"):
                ops.append(dict(rng.choice(table)[1]))
            elif k == "hangup" and rng.random() < 0.15:
                ops.append(client(req("stop"), reply={"hangup_frames": 0}, exc=rng.choice(["EPIPE", "ECONNRESET"])))
            elif k == "hangup":
                ops.append(client(recheck_req() if started else check_req(), reply={"hangup_frames": 0}))
                started = True
            elif k in ("chunked", "trailing"):
                ops.append(dict(rng.choice(table)[1]))
    # verified tail
    f = rng.choice(FILES)
    ops.append({"op": "edit", "files": {f: rng.choice(VARIANTS[f])}})
    ops.append(client(check_req()))
    ops.append(client(req("status")))
    if timeout is not None and rng.random() < 0.5:
        ops.append({"op": "idle"})
    else:
        ops.append(client(req("stop")))
    return {"ops": assign_ids(ops), "timeout": timeout, "flags": []}


# --------------------------------------------------------------------------
# evaluation


def run_ops(scn: dict[str, Any], ops: list[dict[str, Any]], tag: str) -> Any:
    root = kit.new_dir(f"c16-{os.getpid()}-{tag}")
    try:
        return kit.fork_call(
            ipcsim.serve_in_child,
            ops,
            root,
            scn.get("flags", []),
            scn.get("timeout"),
            BASE_FILES,
            timeout=60,
            output_path=os.path.join(root, "_child.out"),
        )
    finally:
        kit.rmtree(root)


def normal_exit(res: dict[str, Any], ops: list[dict[str, Any]], timeout: Any) -> str | None:
    """Which legitimate exit path (if any) explains how serve() ended."""
    ex = res["exit"]
    consumed = res["ops_consumed"]
    last = ops[consumed - 1] if consumed else None
    if ex[0] == "sim_end":
        return "sim_end"
    if ex[0] == "sys_exit" and ex[1] == 0 and last and last["op"] == "client":
        if last["kind"] == "request" and last["req"].get("command") == "stop":
            return "stop"
    if ex[0] == "exception" and ex[1] == "IPCException" and last and last["op"] == "idle":
        if timeout is not None:
            return "idle_timeout"
    return None


def evaluate(scn: dict[str, Any]) -> dict[str, Any]:
    """Run the scenario and its reference; return verdict (violation or None) and stats."""
    ops = scn["ops"]
    res = run_ops(scn, ops, "f")
    if isinstance(res, kit.ChildDied):
        return {"violation": {"kind": "daemon_process_died", "detail": repr(res) + res.output[-800:]}}
    ref_ops = reference_ops(ops)
    ref = run_ops(scn, ref_ops, "r")
    if isinstance(ref, kit.ChildDied):
        return {
            "violation": {"kind": "fault_free_daemon_process_died", "detail": repr(ref) + ref.output[-800:]}
        }
    violation = None
    path = normal_exit(res, ops, scn.get("timeout"))
    ref_path = normal_exit(ref, ref_ops, scn.get("timeout"))
    # Fault-free leg first: with only well-behaved clients every request is answered and the
    # daemon ends only by stop / idle timeout.  (Judged without any relaxation.)
    if ref_path is None:
        return {
            "violation": {
                "kind": "fault_free_daemon_died",
                "exit": ref["exit"],
                "stderr": ref["server_stderr"][-600:],
            }
        }
    answered = {ref_ops[r["op_index"]]["id"] for r in ref["responses"] if r["final"] is not None and not r["rest"]}
    for i, op in enumerate(ref_ops[: ref["ops_consumed"]]):
        if op["op"] == "client" and op["id"] not in answered:
            return {"violation": {"kind": "fault_free_request_unanswered", "op": op}}
    if path is None:
        last = ops[res["ops_consumed"] - 1] if res["ops_consumed"] else None
        violation = {
            "kind": "daemon_died",
            "exit": res["exit"],
            "after_op": last,
            "stderr": res["server_stderr"][-600:],
        }
    # status file: no file naming the daemon after an exit the daemon performed itself
    if violation is None and path in ("stop", "idle_timeout") and res["status_file_left"]:
        violation = {"kind": "status_file_left", "exit_path": path}
    if violation is None and res["exit"][0] != "sim_end" and path is None and res["status_file_left"]:
        violation = {"kind": "status_file_left", "exit_path": "crash"}
    if violation is None and not all(res["status_seen"]):
        violation = {"kind": "status_file_missing_while_serving", "seen": res["status_seen"]}
    # answers
    verified = 0
    if violation is None:
        by_id = {ops[r["op_index"]]["id"]: r for r in res["responses"]}
        ref_by_id = {ref_ops[r["op_index"]]["id"]: r for r in ref["responses"]}
        for op in ops[: res["ops_consumed"]]:
            if op["op"] != "client" or op["kind"] != "request":
                continue
            if op.get("reply", "read") != "read":
                continue
            got = by_id.get(op["id"])
            if op.get("bogus"):
                # Not a request the reference daemon sees; it must be answered with an error.
                fin = got["final"] if got else None
                if fin is None or not isinstance(fin.get("error"), str) or got["rest"]:
                    violation = {"kind": "bogus_request_not_answered_with_error", "op": op, "got": got}
                    break
                continue
            want = ref_by_id.get(op["id"])
            if want is None:
                # The reference daemon had already ended (stop / idle) before this request.
                violation = {"kind": "served_after_reference_daemon_exited", "op": op}
                break
            if got is None or got["final"] is None:
                violation = {"kind": "request_unanswered", "op": op, "got": got}
                break
            if ipcsim.essential(got["final"]) != ipcsim.essential(want["final"]) or got[
                "stream"
            ] != want["stream"]:
                violation = {
                    "kind": "later_result_differs",
                    "op": op,
                    "got": ipcsim.essential(got["final"]),
                    "want": ipcsim.essential(want["final"]),
                    "got_stream": got["stream"],
                    "want_stream": want["stream"],
                }
                break
            if got["rest"] or want["rest"]:
                violation = {"kind": "partial_frame_delivered", "op": op}
                break
            verified += 1
    n_faulty = sum(1 for op in ops if is_faulty(op))
    faults: dict[str, int] = {}
    for op in ops:
        if op["op"] == "client" and is_faulty(op):
            tag = op.get("fault_tag") or (
                "raw_" + op.get("end", "close") if op["kind"] == "raw" else "reply_or_trailing"
            )
            faults[tag] = faults.get(tag, 0) + 1
    for k, v in res["counters"].items():
        faults["fired_" + k] = faults.get("fired_" + k, 0) + v
    return {
        "violation": violation,
        "verified_after_fault": verified if n_faulty else 0,
        "n_faulty": n_faulty,
        "faults": faults,
        "sim_time_s": res["sim_time"],
        "steps": res["steps"],
        "events": res["events"],
        "exit_path": path,
    }


def same_class(a: dict[str, Any] | None, b: dict[str, Any] | None) -> bool:
    return a is not None and b is not None and a["kind"] == b["kind"]


def minimise(scn: dict[str, Any], violation: dict[str, Any]) -> dict[str, Any]:
    ops = scn["ops"]

    def fails(sub: list[dict[str, Any]]) -> bool:
        if not sub:
            return False
        try:
            v = evaluate(dict(scn, ops=sub))["violation"]
        except kit.HarnessError:
            return False
        return same_class(v, violation)

    small = kit.ddmin(ops, fails, max_tests=60)
    return dict(scn, ops=small)


def scenario_task(item: tuple[str, int, dict[str, Any]]) -> dict[str, Any]:
    family, k, scn = item
    v = evaluate(scn)
    out: dict[str, Any] = {
        "family": family,
        "k": k,
        "evaluations": 1,
        "faults": v.get("faults", {}),
        "sim_time_s": v.get("sim_time_s", 0.0),
        "probes": {},
        "nontrivial": [],
        "interleavings": [],
    }
    if v["violation"] is None:
        if v["n_faulty"] and v["verified_after_fault"]:
            out["nontrivial"] = [kit.digest(scn["ops"])]
        out["interleavings"] = [kit.digest(v["events"])]
        out["probes"] = {
            "exit_" + str(v["exit_path"]): 1,
            "verified_requests_after_fault": v["verified_after_fault"],
        }
        if k % 100 == 0:
            out["sample"] = {"family": family, "ops": scn["ops"][:8], "timeout": scn.get("timeout")}
    else:
        out["violation"] = {"scenario": scn, "violation": v["violation"], "family": family}
    return out


# --------------------------------------------------------------------------
# family F: framing, in-process against the real IPCBase


def framing_task(k: int) -> dict[str, Any]:
    import mypy.dmypy_util as du
    import mypy.ipc as ipc

    rng = kit.family_rng(PROP, "framing", k)
    MAXR = ipc.MAX_READ
    sizes_pool = [1, 2, 3, 4, 5, 7, 64, 255, 256, 4095, 65536, MAXR - 5, MAXR - 4, MAXR - 1, MAXR, MAXR + 1, 2 * MAXR + 3]
    nframes = rng.randint(1, 6)
    frames = []
    for _ in range(nframes):
        n = rng.choice(sizes_pool) if rng.random() < 0.7 else rng.randint(1, 2000)
        if n > 70000 and rng.random() < 0.7:
            n = rng.randint(1, 300)
        frames.append(bytes(rng.getrandbits(8) for _ in range(min(n, 64))) * (n // min(n, 64)) + b"z" * (n % min(n, 64)))
    json_mode = rng.random() < 0.3
    if json_mode:
        frames = [
            json.dumps({"k": "é" * rng.randint(0, 50), "n": i, "s": "x" * rng.randint(0, 3000)}).encode()
            for i in range(nframes)
        ]

    class Wire:
        def __init__(self) -> None:
            self.data = bytearray()

        def sendall(self, b: bytes) -> None:
            # drawn fragmentation on the writer side does not matter for a byte stream
            self.data.extend(b)

    w = Wire()
    writer = ipc.IPCBase("w", None)
    writer.connection = w  # type: ignore[assignment]
    for fr in frames:
        if json_mode:
            du.send(writer, json.loads(fr.decode()))
        else:
            writer.write_bytes(fr)
    stream = bytes(w.data)
    expect_stream = b"".join(ipcsim.frame(fr) for fr in frames) if not json_mode else None
    bad = None
    if expect_stream is not None and stream != expect_stream:
        bad = {"kind": "write_bytes_wrong_stream"}
    mode = rng.choice(["bytes1", "few", "many", "headers", "whole"])
    if mode == "bytes1" and len(stream) > 20000:
        mode = "many"
    if mode == "bytes1":
        cuts: Any = "bytes1"
    elif mode == "whole":
        cuts = None
    elif mode == "headers":
        # cut inside every 4-byte header
        cuts = []
        pos = 0
        for fr in ipcsim.split_frames(stream)[0]:
            cuts.append(pos + rng.randint(1, 3))
            pos += 4 + len(fr)
            if rng.random() < 0.5:
                cuts.append(pos)
    else:
        ncut = rng.randint(1, 4) if mode == "few" else rng.randint(5, 40)
        cuts = sorted(rng.sample(range(1, len(stream)), min(ncut, len(stream) - 1))) if len(stream) > 1 else None
    chunks = ipcsim.chunk(stream, cuts)

    class Src:
        def __init__(self, chunks: list[bytes]) -> None:
            self.chunks = list(chunks)
            self.calls = 0

        def recv(self, size: int) -> bytes:
            self.calls += 1
            if not self.chunks:
                return b""
            c = self.chunks[0]
            if len(c) > size:
                self.chunks[0] = c[size:]
                return c[:size]
            return self.chunks.pop(0)

        def readable(self) -> bool:
            return True  # data or EOF

    src = Src(chunks)
    reader = ipc.IPCBase("r", None)
    reader.connection = src  # type: ignore[assignment]
    got = []
    want = [json.loads(f.decode()) for f in frames] if json_mode else frames
    ready_checked = 0
    if bad is None:
        for i in range(len(frames)):
            # ready_to_read must report a connection that already buffers a whole frame
            if reader.buffer and not json_mode:
                fr2, _ = ipcsim.split_frames(bytes(reader.buffer))
                if fr2:
                    def fake_select(r: Any, w_: Any, x: Any, t: Any = None) -> Any:
                        return [], [], []

                    ipc.select = fake_select  # type: ignore[attr-defined]
                    if ipc.ready_to_read([reader], 0.0) != [0]:
                        bad = {"kind": "ready_to_read_missed_buffered_frame", "frame": i}
                        break
                    ready_checked += 1
            try:
                got.append(du.receive(reader) if json_mode else reader.read_bytes())
            except Exception as e:  # noqa: BLE001
                bad = {"kind": "read_raised", "frame": i, "exc": repr(e)}
                break
        if bad is None and got != want:
            first = next((i for i, (a, b) in enumerate(zip(got, want)) if a != b), len(got))
            bad = {"kind": "frames_differ", "first": first}
        if bad is None:
            tail = reader.read_bytes()
            if tail != b"" or reader.buffer:
                bad = {"kind": "spurious_data_after_last_frame"}
    res: dict[str, Any] = {
        "family": "F",
        "k": k,
        "evaluations": 1,
        "faults": {"segmentation_" + mode: 1},
        "probes": {"ready_to_read_buffered": ready_checked, "frames_over_MAX_READ": sum(1 for f in frames if len(f) > MAXR)},
        "nontrivial": [kit.digest([[len(f) for f in frames], cuts if cuts != "bytes1" else "b1", json_mode])]
        if len(chunks) > len(frames) or len(frames) > 1
        else [],
        "interleavings": [kit.digest([len(c) for c in chunks][:200])],
    }
    if bad is not None:
        res["violation"] = {
            "scenario": {"family": "F", "k": k, "seed": kit.seed(), "sizes": [len(f) for f in frames], "mode": mode},
            "violation": bad,
            "family": "F",
        }
    return res


def violation_class(v: dict[str, Any]) -> str:
    vv = v["violation"]
    after = vv.get("after_op") or vv.get("op") or {}
    tag = after.get("fault_tag") or (after.get("kind") if after else "")
    return f"{v['family']}:{vv['kind']}:{tag}"


def finalise_task(v: dict[str, Any]) -> dict[str, Any]:
    """Minimise one representative violation and confirm it reproduces."""
    if v["family"] in ("F", "C"):
        return v
    scn, viol = v["scenario"], v["violation"]
    small = minimise(scn, viol)
    again = evaluate(small)["violation"]
    if not same_class(again, viol):
        small, again = scn, evaluate(scn)["violation"]
        if not same_class(again, viol):
            raise kit.HarnessError(f"violation did not reproduce: {viol}")
    return {"scenario": small, "violation": again, "family": v["family"]}


def client_task(k: int) -> dict[str, Any]:
    """Family C: the shipped client (`mypy.dmypy.client.request`) reads a multi-frame reply
    (stdout/stderr frames, then the final frame) from a scripted socket under a drawn segmentation."""
    import contextlib
    import io
    import tempfile

    import mypy.dmypy.client as client
    import mypy.ipc as ipc

    rng = kit.family_rng(PROP, "client", k)
    nout = rng.randint(0, 4)
    parts: list[dict[str, Any]] = []
    for i in range(nout):
        key = rng.choice(["stdout", "stderr"])
        parts.append({key: f"line {i} " + "\u00e9x" * rng.randint(0, 200) + "\n"})
    final = {"out": "a.py:1: error: x\n" * rng.randint(0, 300), "err": "", "status": rng.randint(0, 2), "final": True}
    parts.append(final)
    stream = b"".join(ipcsim.frame(json.dumps(p).encode("utf-8")) for p in parts)
    mode = rng.choice(["bytes1", "few", "many", "whole"])
    if mode == "bytes1" and len(stream) > 6000:
        mode = "many"
    if mode == "bytes1":
        cuts: Any = "bytes1"
    elif mode == "whole":
        cuts = None
    else:
        n = rng.randint(1, 4) if mode == "few" else rng.randint(5, 40)
        cuts = sorted(rng.sample(range(1, len(stream)), min(n, len(stream) - 1)))
    chunks = ipcsim.chunk(stream, cuts)
    sent = bytearray()

    class Sock:
        def setsockopt(self, *a: Any) -> None: ...
        def settimeout(self, t: Any) -> None: ...
        def connect(self, name: str) -> None: ...
        def close(self) -> None: ...
        def sendall(self, b: bytes) -> None:
            sent.extend(b)

        def recv(self, size: int) -> bytes:
            if not chunks:
                return b""
            c = chunks[0]
            if len(c) > size:
                chunks[0] = c[size:]
                return c[:size]
            return chunks.pop(0)

    class Mod:
        AF_UNIX = 1
        SOL_SOCKET = 1
        SO_RCVBUF = 8
        SO_SNDBUF = 7

        @staticmethod
        def socket(*a: Any) -> Sock:
            return Sock()

    real = ipc.socket
    ipc.socket = Mod  # type: ignore[assignment]
    bad = None
    d = tempfile.mkdtemp(prefix="c16c-", dir=kit.scratch_root())
    try:
        sf = os.path.join(d, "status.json")
        with open(sf, "w") as f:
            json.dump({"pid": os.getpid(), "connection_name": "fake"}, f)
        o, e = io.StringIO(), io.StringIO()
        with contextlib.redirect_stdout(o), contextlib.redirect_stderr(e):
            resp = client.request(sf, "check", files=["a.py"], export_types=False)
        want = {k_: v for k_, v in final.items() if k_ != "final"}
        want_out = "".join(p.get("stdout", "") for p in parts[:-1])
        want_err = "".join(p.get("stderr", "") for p in parts[:-1])
        if resp != want:
            bad = {"kind": "client_response_differs", "got_keys": sorted(resp), "error": str(resp.get("error"))[:200]}
        elif o.getvalue() != want_out or e.getvalue() != want_err:
            bad = {"kind": "client_stream_output_differs"}
        else:
            req_frames, rest = ipcsim.split_frames(bytes(sent))
            if len(req_frames) != 1 or rest or json.loads(req_frames[0]).get("command") != "check":
                bad = {"kind": "client_request_frame_malformed"}
    finally:
        ipc.socket = real  # type: ignore[assignment]
        kit.rmtree(d)
    res: dict[str, Any] = {
        "family": "C", "k": k, "evaluations": 1, "faults": {"client_segmentation_" + mode: 1}, "probes": {"client_reply_frames": len(parts)},
        "nontrivial": [kit.digest(["C", len(stream), cuts if cuts != "bytes1" else "b1", nout])] if len(parts) > 1 or mode != "whole" else [],
        "interleavings": [],
    }
    if bad is not None:
        res["violation"] = {"scenario": {"family": "C", "k": k, "seed": kit.seed()}, "violation": bad, "family": "C"}
    return res


def task(item: Any) -> dict[str, Any]:
    if item[0] == "F":
        return framing_task(item[1])
    if item[0] == "C":
        return client_task(item[1])
    return scenario_task(item)


# --------------------------------------------------------------------------


def build_items(tier: str) -> tuple[list[Any], dict[str, int]]:
    items: list[Any] = []
    sizes: dict[str, int] = {}
    # A: early close at every byte offset of a check request and of a recheck request
    k = 0
    for r_ in (check_req(), recheck_req()):
        fb = ipcsim.request_bytes(r_)
        for j in range(0, len(fb)):
            for end in ("close",) if tier == "quick" and r_["command"] == "recheck" and j % 3 else ("close", "reset"):
                if end == "reset" and tier == "quick" and j % 4:
                    continue
                f = raw(fb[:j], end=end)
                f["fault_tag"] = f"early_{end}"
                items.append(("A", k, {"ops": assign_ids(wrap([f])), "timeout": None, "flags": []}))
                k += 1
    sizes["A"] = k
    # B: garbage table, each alone and each twice in a row
    k = 0
    for name, op in garbage_table():
        op = dict(op, fault_tag=name)
        items.append(("B", k, {"ops": assign_ids(wrap([op])), "timeout": None, "flags": []}))
        k += 1
        items.append(("B", k, {"ops": assign_ids(wrap([op, dict(op)], 3)), "timeout": 30, "flags": []}))
        k += 1
    sizes["B"] = k
    # E: hang-up at every reply frame / byte offsets of the reply
    k = 0
    for r_ in (check_req(), recheck_req(), req("status"), req("frobnicate")):
        for spec in [{"hangup_frames": 0}, {"hangup_frames": 1}] + [
            {"hangup_bytes": n} for n in ((0, 1, 3, 4, 5, 50) if tier == "quick" else range(0, 140, 3))
        ]:
            for exc in ("EPIPE", "ECONNRESET"):
                c = client(r_, reply=spec, exc=exc, fault_tag="reply_hangup")
                items.append(("E", k, {"ops": assign_ids(wrap([c])), "timeout": None, "flags": []}))
                k += 1
    for spec in ({"hangup_frames": 0}, {"hangup_bytes": 2}, {"hangup_bytes": 40}):
        for exc in ("EPIPE", "ECONNRESET"):
            c = client(req("stop"), reply=spec, exc=exc, fault_tag="stop_reply_hangup")
            ops = [client(check_req()), c, client(req("status")), client(check_req()), client(req("stop"))]
            items.append(("E", k, {"ops": assign_ids(ops), "timeout": None, "flags": []}))
            k += 1
    sizes["E"] = k
    # S: seeded sequences
    n_s = 250 if tier == "quick" else FAMILY["S"]
    for k in kit.sample_indices(PROP, "S", FAMILY["S"], n_s):
        items.append(("S", k, gen_sequence(kit.family_rng(PROP, "S", k))))
    sizes["S"] = n_s
    n_f = 400 if tier == "quick" else FAMILY["F"]
    for k in kit.sample_indices(PROP, "F", FAMILY["F"], n_f):
        items.append(("F", k))
    sizes["F"] = n_f
    n_c = 150 if tier == "quick" else FAMILY["C"]
    for k in kit.sample_indices(PROP, "C", FAMILY["C"], n_c):
        items.append(("C", k))
    sizes["C"] = n_c
    return items, sizes


KNOWN_KEY_FIELDS = ("kind",)


def match_known(v: dict[str, Any], known: list[dict[str, Any]]) -> dict[str, Any] | None:
    for e in known:
        m = e.get("match", {})
        if m.get("kind") != v["violation"]["kind"]:
            continue
        tag = m.get("fault_tag")
        if tag is not None:
            after = v["violation"].get("after_op") or {}
            if after.get("fault_tag") != tag:
                continue
        return e
    return None


def run(tier: str) -> int:
    rep = kit.Report(PROP, tier, "fault_enumeration")
    rep.rule = (
        "families A (early close at every byte offset of a check and a recheck frame, close and reset), "
        "B (garbage/header table, alone and doubled), E (hang-up at each reply frame and byte offsets) are "
        "enumerated; S = seeded swarm sequences of 4-14 client behaviours interleaved with edits; F = framing "
        "under drawn segmentations. Non-trivial = a scenario with >=1 faulty client after which >=1 well-formed "
        "request was answered and compared with the reference daemon (distinct by digest of the op list); "
        "for F: more chunks than frames or >1 frame, distinct by (sizes, cuts)."
    )
    rep.real_components = [
        "mypy.dmypy_server.Server.serve/run_command/cmd_*",
        "mypy.ipc.IPCServer/IPCBase framing",
        "mypy.dmypy_util.send/receive/WriteToConn",
        "fine-grained build of the project",
    ]
    rep.stub_components = [
        "socket layer (mypy.ipc.socket -> scripted FakeSocket)",
        "typeshed (test-data/unit/lib-stub)",
        "dmypy client process (scripted byte streams)",
    ]
    rep.assumptions = [
        "every client eventually disconnects (a client that stalls forever mid-frame is out of scope)",
        "frames are non-empty (IPCBase.read_bytes cannot distinguish an empty frame from EOF by design)",
        "SIGKILL of the daemon is outside the status-file clause",
    ]
    items, sizes = build_items(tier)
    known = kit.load_known_findings(PROP)
    results, skipped = kit.run_pool(task, items)
    results.sort(key=lambda r: (r["family"], r["k"]))
    fam_counts: dict[str, int] = {}
    by_class: dict[str, list[dict[str, Any]]] = {}
    for r in results:
        rep.add_result(r)
        fam_counts[r["family"]] = fam_counts.get(r["family"], 0) + 1
        if "violation" in r:
            by_class.setdefault(violation_class(r["violation"]), []).append(r["violation"])
    reps = [vs[0] for _, vs in sorted(by_class.items())]
    unknown = []
    for v in reps:
        e = match_known(v, known)
        if e is not None:
            rep.known_finding(e["what"])
        else:
            unknown.append(v)
    finals, _ = kit.run_pool(finalise_task, unknown)
    for v in finals:
        path = kit.write_replay(PROP, {"engine": "ipcsim", **v})
        n = len(by_class[violation_class(v)]) if violation_class(v) in by_class else 1
        rep.violation(path, f"{v['violation']['kind']} class={violation_class(v)} occurrences={n}")
    rep.extra["family_sizes"] = sizes
    rep.extra["family_executed"] = fam_counts
    rep.exhaustive = skipped == 0
    rep.extra["exhaustive_note"] = "families A, B, E fully enumerated; S and F are samples"
    rep.write()
    print(
        f"C16 {tier}: {rep.evaluations} scenarios, {len(rep.nontrivial)} non-trivial, "
        f"{len(rep.violations)} violations, {len(rep.known)} known findings, wall {rep.extra.get('wall', '')}"
    )
    return rep.exit_code()


def replay(path: str) -> int:
    with open(path) as f:
        rp = json.load(f)
    scn = rp["scenario"]
    if scn.get("family") in ("F", "C"):
        os.environ["VERIF_SEED"] = str(scn["seed"])
        r = framing_task(scn["k"]) if scn["family"] == "F" else client_task(scn["k"])
        v = r.get("violation", {}).get("violation")
    else:
        v = evaluate(scn)["violation"]
    print(json.dumps(v, indent=1, default=str))
    if v is not None:
        print(f"VIOLATION property={PROP} replay={path}")
        return 1
    print("replay: no violation")
    return 0
