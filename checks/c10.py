"""C10 — results are deterministic and independent of irrelevant context.

The "faults" here are the nuisance variables themselves, each behind a seam we own:
  H  hash seed        K zygote interpreters started with different PYTHONHASHSEED values run
                      the same scenario at the SAME absolute path under the same simulated
                      clock; compared: stdout text AND order, exit status, and every cache
                      record byte for byte (cold runs, and warm runs after an edit that start
                      from a copy of one cache); also -n N under a fixed schedule script
  P  argument order   acyclic projects, permutations of the file arguments; diagnostics as a
                      per-file multiset
  L  listing order    directory argument with FileSystemCache.listdir permuted
  I  process history  0-4 unrelated builds (CLI main, mypy.api.run, a daemon Server; other
                      projects and options, some failing with blockers) executed earlier in the
                      same interpreter; result and cache records vs. a pristine interpreter
"""

from __future__ import annotations

import atexit
import copy
import itertools
import json
import os
import shutil
import sqlite3
import subprocess
import sys
from typing import Any

from sim import histsim, kit, project, runner

PROP = "C10"
FAMILY = {"H": 300, "P": 150, "L": 40, "I": 200}  # finite scenario families (members are independent of VERIF_SEED)

_zygotes: dict[int, subprocess.Popen[str]] = {}


def hash_seeds(k: int) -> list[int]:
    pool = [kit.family_rng(PROP, "hashseed", i).randrange(1, 2**32 - 1) for i in range(1, 12)]
    if k - 1 >= len(pool):
        return [0] + pool
    return [0] + sorted(kit.rng_for(PROP, "hashseed-sample").sample(pool, k - 1))


def zygote(hs: int) -> subprocess.Popen[str]:
    z = _zygotes.get(hs)
    if z is not None and z.poll() is None:
        return z
    env = dict(os.environ)
    env["PYTHONHASHSEED"] = str(hs)
    env["VERIF_SCRATCH"] = kit.scratch_root()
    z = subprocess.Popen(
        [sys.executable, os.path.join(kit.VERIF, "sim", "zygote.py")],
        stdin=subprocess.PIPE, stdout=subprocess.PIPE, stderr=subprocess.DEVNULL, env=env, text=True, bufsize=1,
    )
    assert z.stdout is not None
    hello = json.loads(z.stdout.readline())
    if not hello.get("ready") or hello.get("hashseed") != str(hs):
        raise kit.HarnessError(f"zygote did not start: {hello}")
    _zygotes[hs] = z
    return z


def close_zygotes() -> None:
    for z in _zygotes.values():
        try:
            assert z.stdin is not None
            z.stdin.write(json.dumps({"quit": True}) + "\n")
            z.stdin.flush()
            z.wait(timeout=5)
        except Exception:
            try:
                z.kill()
            except Exception:
                pass
    _zygotes.clear()


atexit.register(close_zygotes)


def zrun(hs: int, spec: dict[str, Any]) -> dict[str, Any]:
    z = zygote(hs)
    assert z.stdin is not None and z.stdout is not None
    z.stdin.write(json.dumps({"spec": spec}) + "\n")
    z.stdin.flush()
    line = z.stdout.readline()
    if not line:
        raise kit.HarnessError(f"zygote {hs} died")
    ans = json.loads(line)
    if not ans.get("ok"):
        raise kit.HarnessError("zygote run failed: " + str(ans.get("error")))
    return ans["res"]  # type: ignore[no-any-return]


SKIP_NAMES = (".worker_options", "missing_stubs", "CACHEDIR.TAG", ".gitignore", ".mypy_worker")


def dump_cache(cache_dir: str) -> dict[str, str]:
    """name -> hex digest of every record (file store files and sqlite rows)."""
    import hashlib

    out: dict[str, str] = {}
    if not os.path.isdir(cache_dir):
        return out
    for d, _, files in os.walk(cache_dir):
        for fn in sorted(files):
            p = os.path.join(d, fn)
            rel = os.path.relpath(p, cache_dir)
            if any(s in fn for s in SKIP_NAMES):
                continue
            if fn.endswith((".db-wal", ".db-shm")):
                continue
            if fn.endswith(".db"):
                try:
                    con = sqlite3.connect(p)
                    for path, mtime, data in con.execute("SELECT path, mtime, data FROM files2 ORDER BY path"):
                        out[f"{rel}::{path}"] = hashlib.sha256(bytes(data)).hexdigest()[:20] + f"@{mtime}"
                    con.close()
                except sqlite3.Error as e:
                    out[rel] = "sqlite-error " + str(e)
                continue
            with open(p, "rb") as f:
                out[rel] = hashlib.sha256(f.read()).hexdigest()[:20] + f"@{int(os.path.getmtime(p))}"
    return out


def diff_records(a: dict[str, str], b: dict[str, str]) -> list[str]:
    return sorted(k for k in set(a) | set(b) if a.get(k) != b.get(k))


def base_spec(h: histsim.History, cache: str, extra: list[str] | None = None, **more: Any) -> dict[str, Any]:
    spec = {
        "cwd": h.world.proj,
        "argv": h.argv(cache, extra),
        "env": h.world.env(),
        "child_output": os.path.join(h.world.root, "child.out"),
        "clock_start_ns": 2_000_000_000 * 10**9,
        "clock_step_ns": 50_000_000,
    }
    spec.update(more)
    return spec


def exact(r: dict[str, Any]) -> Any:
    return [r.get("status"), r.get("stdout"), r.get("stderr")]


# --------------------------------------------------------------------------
# family H


def eval_hash(scn: dict[str, Any], tag: str) -> dict[str, Any]:
    seeds = scn["hashseeds"]
    h = histsim.History(scn, f"c10-{os.getpid()}-{tag}")
    out: dict[str, Any] = {"violation": None, "runs": 0, "nontrivial": False}
    try:
        extra = list(scn.get("extra") or [])
        more: dict[str, Any] = {}
        if scn.get("par"):
            ps = dict(scn["par"], store=scn["config"]["store"], num_shards=scn["config"].get("shards", 0))
            extra += ["-n", str(ps["workers"])]
            more = {"pre_hook": ["sim.parsched", "install"], "par": ps}
        ref = None
        ref_rec = None
        script = None
        for hs in seeds:
            h.world.drop_cache("c")
            if scn.get("par") and script is not None:
                more["par"] = dict(more["par"], script=script)
            r = zrun(hs, base_spec(h, "c", extra, **more))
            out["runs"] += 1
            if r["status"] not in (0, 1, 2):
                out["violation"] = {"kind": "run_abnormal", "hashseed": hs, "status": r["status"], "detail": str(r.get("traceback") or r.get("stderr"))[-1200:]}
                return out
            if scn.get("par") and script is None:
                script = (r.get("par") or {}).get("decisions")  # fix the schedule of the first run
            rec = dump_cache(h.world.cache_dir("c"))
            if ref is None:
                ref, ref_rec = r, rec
                out["nontrivial"] = len(r["stdout"].splitlines()) >= 3 and len(rec) >= 6
                continue
            if scn.get("par"):
                # In a parallel build the order of the per-file blocks (and with it the file that carries a
                # per-process only_once note) follows the completion order of the workers. The schedule script
                # only fixes the controller's choices by index; a different hash seed changes the order of
                # modules inside a worker's batch (set iteration), so the executions are not step-identical.
                # Parallel builds are therefore compared the way C07 compares them: status, per-file multisets.
                from checks import c07

                v2 = c07.compare(r, ref, "hash_seed_under_parallel_build")
                if v2 is not None and v2["kind"] not in c07.SOFT:
                    out["violation"] = {"kind": "parallel_output_depends_on_hash_seed", "hashseeds": [seeds[0], hs], "diff": v2.get("diff")}
                    return out
                continue
            if exact(r) != exact(ref):
                out["violation"] = {"kind": "output_depends_on_hash_seed", "hashseeds": [seeds[0], hs], "diff": runner.first_difference(r, ref), "same_as_sets": runner.same_observable(r, ref)}
                return out
            assert ref_rec is not None
            d = diff_records(rec, ref_rec)
            if d and not scn.get("par"):
                out["violation"] = {"kind": "cache_records_depend_on_hash_seed", "hashseeds": [seeds[0], hs], "records": d[:8], "n": len(d)}
                return out
        # warm leg: same starting cache (from seed 0), an edit, then warm runs under each seed
        if scn["steps"] and not scn.get("par"):
            h.world.drop_cache("c")
            zrun(seeds[0], base_spec(h, "c", extra))
            snap = os.path.join(h.world.root, "snapc")
            kit.rmtree(snap)
            if not os.path.isdir(h.world.cache_dir("c")):
                return out  # the build aborted before any cache was created (blocker): no warm leg
            shutil.copytree(h.world.cache_dir("c"), snap)
            for st in scn["steps"]:
                h.apply_step(st)
            ref = ref_rec = None
            for hs in seeds:
                kit.rmtree(h.world.cache_dir("c"))
                shutil.copytree(snap, h.world.cache_dir("c"))
                r = zrun(hs, base_spec(h, "c", extra, clock_start_ns=2_000_000_100 * 10**9))
                out["runs"] += 1
                if r["status"] not in (0, 1, 2):
                    out["violation"] = {"kind": "run_abnormal", "hashseed": hs, "status": r["status"], "detail": str(r.get("traceback") or r.get("stderr"))[-1200:]}
                    return out
                rec = dump_cache(h.world.cache_dir("c"))
                if ref is None:
                    ref, ref_rec = r, rec
                    continue
                if exact(r) != exact(ref):
                    out["violation"] = {"kind": "warm_output_depends_on_hash_seed", "hashseeds": [seeds[0], hs], "diff": runner.first_difference(r, ref)}
                    return out
                assert ref_rec is not None
                d = diff_records(rec, ref_rec)
                if d:
                    out["violation"] = {"kind": "warm_cache_records_depend_on_hash_seed", "hashseeds": [seeds[0], hs], "records": d[:8], "n": len(d)}
                    return out
    finally:
        out["sim_time_s"] = h.world.sim_advance_s
        h.close()
    return out


# --------------------------------------------------------------------------
# family P / L


def _sorted(r: dict[str, Any]) -> dict[str, Any]:
    per_file, other = runner.split_output(r.get("stdout") or "")
    lines = [l for f in sorted(per_file) for l in sorted(per_file[f])] + other
    return dict(r, stdout="\n".join(lines) + ("\n" if lines else ""))


def multiset(r: dict[str, Any]) -> Any:
    o = runner.observable(r)
    return [o["status"], {f: sorted(v) for f, v in o["per_file"].items()}, sorted(o["other"])]


def eval_perm(scn: dict[str, Any], tag: str) -> dict[str, Any]:
    h = histsim.History(scn, f"c10-{os.getpid()}-{tag}")
    out: dict[str, Any] = {"violation": None, "runs": 0, "nontrivial": False}
    try:
        files = project.argv_files(h.state)
        ref = None
        for perm in scn["perms"]:
            spec = base_spec(h, "p")
            tail = spec["argv"][len(files):]
            if scn.get("listdir_seed_list"):
                spec["argv"] = ["."] + tail
            else:
                spec["argv"] = [files[i] for i in perm if i < len(files)] + tail
            h.world.drop_cache("p")
            r = runner.run(dict(spec, listdir_seed=perm[0] if scn.get("listdir_seed_list") else None))
            out["runs"] += 1
            if r["status"] not in (0, 1, 2):
                out["violation"] = {"kind": "run_abnormal", "status": r["status"], "detail": str(r.get("traceback") or r.get("stderr"))[-1200:]}
                return out
            if ref is None:
                ref = r
                out["nontrivial"] = len(files) >= 3 and len(r["stdout"].splitlines()) >= 3
                continue
            if multiset(r) != multiset(ref):
                if runner.soft_difference(_sorted(r), _sorted(ref)) is not None:
                    # C02's known-finding classes (per-process only_once notes; how much was printed
                    # before a blocking error aborted the build) - not an order dependence of the result
                    out["only_once"] = True
                    continue
                out["violation"] = {"kind": "diagnostics_depend_on_argument_order" if not scn.get("listdir_seed_list") else "diagnostics_depend_on_listing_order",
                                    "perm": perm, "diff": runner.first_difference(r, ref)}
                return out
    finally:
        out["sim_time_s"] = h.world.sim_advance_s
        h.close()
    return out


# --------------------------------------------------------------------------
# family I


def eval_inproc(scn: dict[str, Any], tag: str) -> dict[str, Any]:
    h = histsim.History(scn, f"c10-{os.getpid()}-{tag}")
    out: dict[str, Any] = {"violation": None, "runs": 0, "nontrivial": False}
    others = []
    try:
        pre = []
        for i, pb in enumerate(scn["pre"]):
            ho = histsim.History({"project": pb["project"], "config": scn["config"], "steps": []}, f"c10-{os.getpid()}-{tag}-pre{i}")
            others.append(ho)
            files = project.argv_files(ho.state)
            if pb["kind"] == "daemon":
                pre.append({"kind": "daemon", "cwd": ho.world.proj, "files": files, "flags": []})
            else:
                pre.append({"kind": pb["kind"], "cwd": ho.world.proj, "argv": files + ["--cache-dir", ho.world.cache_dir("c")] + histsim.config_flags(scn["config"]) + pb.get("flags", [])})
        pristine = runner.run(base_spec(h, "c"))
        rec0 = dump_cache(h.world.cache_dir("c"))
        h.world.drop_cache("c")
        after = runner.run(base_spec(h, "c", pre_builds=pre))
        rec1 = dump_cache(h.world.cache_dir("c"))
        out["runs"] = 2
        for r in (pristine, after):
            if r["status"] not in (0, 1, 2):
                out["violation"] = {"kind": "run_abnormal", "status": r["status"], "detail": str(r.get("traceback") or r.get("stderr"))[-1500:]}
                return out
        out["pre_results"] = after.get("pre_results")
        out["nontrivial"] = len(pre) >= 1 and len(pristine["stdout"].splitlines()) >= 3
        if exact(after) != exact(pristine):
            out["violation"] = {"kind": "result_depends_on_earlier_builds", "pre": after.get("pre_results"), "diff": runner.first_difference(after, pristine)}
            return out
        d = diff_records(rec1, rec0)
        if d:
            out["violation"] = {"kind": "cache_records_depend_on_earlier_builds", "pre": after.get("pre_results"), "records": d[:8], "n": len(d)}
    finally:
        out["sim_time_s"] = h.world.sim_advance_s
        h.close()
        for ho in others:
            ho.close()
    return out


# --------------------------------------------------------------------------


def gen(fam: str, k: int, tier: str) -> dict[str, Any]:
    rng = kit.family_rng(PROP, fam, k)
    K = 4 if tier == "quick" else 12
    cfgs = [c for c in histsim.STORE_CONFIGS if c["store"] == "files"] + [histsim.STORE_CONFIGS[0]]
    if fam == "H":
        scn = histsim.gen_history_scenario(rng, cfg=cfgs[k % len(cfgs)], max_steps=2, clock_mode="plain")
        scn["hashseeds"] = hash_seeds(K)
        # many entry points in a drawn order: several SCCs are ready in the same layer
        plain = [m for m in sorted(scn["project"]["mods"]) if "." not in m]
        rng.shuffle(plain)
        scn["project"]["roots"] = plain[: max(1, rng.randint(len(plain) // 2, len(plain)))]
        if "m0" not in scn["project"]["roots"]:
            scn["project"]["roots"].append("m0")
        if rng.random() < 0.6:
            codes = rng.sample(["truthy-bool", "redundant-expr", "ignore-without-code", "possibly-undefined", "unused-awaitable", "explicit-override", "mutable-override", "unimported-reveal"], rng.randint(2, 5))
            dis = rng.sample(["assignment", "attr-defined", "arg-type", "name-defined", "override", "no-redef", "call-arg"], rng.randint(2, 4))
            scn["extra"] = [x for c in codes for x in ("--enable-error-code", c)] + [x for c in dis for x in ("--disable-error-code", c)]
        if k % 5 == 4:
            scn["par"] = {"workers": rng.choice([2, 3]), "sched_seed": rng.randrange(1 << 30), "policy": {}}
            scn["config"] = dict(histsim.STORE_CONFIGS[0])
        return scn
    if fam in ("P", "L"):
        scn = histsim.gen_history_scenario(rng, cfg=cfgs[k % len(cfgs)], max_steps=1, acyclic=True, clock_mode="plain", max_mods=6)
        scn["steps"] = []
        mods = [m for m in sorted(scn["project"]["mods"]) if m != "ns"]
        scn["project"]["roots"] = mods
        scn["project"]["argv_mode"] = "files"
        n = len(mods)
        perms = [list(range(n))]
        allp = list(itertools.permutations(range(n))) if n <= 5 else None
        want = 5 if tier == "quick" else 24
        while len(perms) < want:
            p = list(rng.choice(allp)) if allp else rng.sample(range(n), n)
            if p not in perms:
                perms.append(p)
            if allp and len(perms) >= len(allp):
                break
        scn["perms"] = perms
        if fam == "L":
            scn["listdir_seed_list"] = True
            scn["perms"] = [[i] for i in range(want)]
        return scn
    if fam == "I":
        scn = histsim.gen_history_scenario(rng, cfg=cfgs[k % len(cfgs)], max_steps=1, clock_mode="plain")
        scn["steps"] = []
        pre = []
        for _ in range(rng.randint(1, 4)):
            p = project.gen_project(rng)
            if rng.random() < 0.25:
                m = rng.choice(sorted(p["mods"]))
                p["mods"][m]["broken"] = True  # an earlier build that fails with a blocker
            kind = rng.choice(["main", "main", "api", "daemon"])
            flags = rng.choice([[], ["--strict"], ["--disallow-any-expr"], ["--no-strict-optional"], ["--follow-imports=silent"],
                                ["--python-version", "3.10"], ["--python-version", "3.13"], ["--python-version", "3.10", "--platform", "win32"]])
            pre.append({"project": p, "kind": kind, "flags": flags})
        if rng.random() < 0.5:
            # swarm option: version-specific knowledge. The build under test misspells a stdlib module that
            # exists only in some Python versions; an earlier build in the process ran for another version.
            m0 = scn["project"]["mods"]["m0"]
            m0["imports"].append({"mod": rng.choice(["tomlib", "distutil", "asynchatt", "imghdrr"]), "style": "import", "ignore": False})
            pre[rng.randrange(len(pre))]["flags"] = ["--python-version", rng.choice(["3.10", "3.13"])]
        scn["pre"] = pre
        return scn
    raise AssertionError(fam)


EVAL = {"H": eval_hash, "P": eval_perm, "L": eval_perm, "I": eval_inproc}


def task(item: tuple[str, int, str]) -> dict[str, Any]:
    fam, k, tier = item
    scn = gen(fam, k, tier)
    r = EVAL[fam](scn, f"{fam}{k}")
    out: dict[str, Any] = {
        "family": fam,
        "k": k,
        "evaluations": r["runs"],
        "sim_time_s": r.get("sim_time_s", 0.0),
        "faults": {"family_" + fam: 1},
        "probes": {},
        "nontrivial": [kit.digest([fam, scn["project"], scn.get("perms"), scn.get("pre")])] if r["nontrivial"] else [],
        "interleavings": [],
    }
    if fam == "H":
        out["faults"]["hash_seed_variants"] = len(scn["hashseeds"])
        if scn.get("par"):
            out["faults"]["hash_seed_under_fixed_parallel_schedule"] = 1
    if fam == "I":
        for pr in r.get("pre_results") or []:
            out["probes"]["pre_build_" + str(pr[0]) + "_" + str(pr[1])] = out["probes"].get("pre_build_" + str(pr[0]) + "_" + str(pr[1]), 0) + 1
    if k % 50 == 0:
        out["sample"] = {"family": fam, "modules": sorted(scn["project"]["mods"]), "config": scn["config"], "hashseeds": scn.get("hashseeds"), "perms": (scn.get("perms") or [])[:3], "pre": [[p["kind"], p["flags"]] for p in scn.get("pre", [])]}
    if r["violation"] is not None:
        v = r["violation"]
        if fam == "I" and v["kind"] in ("result_depends_on_earlier_builds", "cache_records_depend_on_earlier_builds") \
                and scn["project"].get("plugin") is not None and any(p["project"].get("plugin") is not None for p in scn["pre"]):
            # counterfactual replay: the same history, but the earlier builds do not load a plugin file that
            # has the same module name as (and other contents than) the plugin of the build under test
            cf = copy.deepcopy(scn)
            for p_ in cf["pre"]:
                p_["project"]["plugin"] = None
            if EVAL[fam](cf, f"{fam}{k}cf")["violation"] is None:
                v = dict(v, kind="stale_plugin_module_in_sys_modules")
        out["violation"] = {"family": fam, "k": k, "scenario": scn, "violation": v}
    return out


def finalise_task(v: dict[str, Any]) -> dict[str, Any]:
    again = EVAL[v["family"]](v["scenario"], "fin")
    if again["violation"] is None or again["violation"]["kind"] != v["violation"]["kind"]:
        if v["violation"]["kind"] != "stale_plugin_module_in_sys_modules":
            raise kit.HarnessError(f"violation did not reproduce: {v['family']}:{v['violation']['kind']} k={v.get('k')}")
    return {"family": v["family"], "k": v.get("k"), "scenario": v["scenario"], "violation": v["violation"]}


def run(tier: str) -> int:
    rep = kit.Report(PROP, tier, "exploration")
    rep.rule = (
        "families: H = generated project x store config, run cold under K hash seeds (K=4 quick, 12 thorough; real "
        "interpreters started with PYTHONHASHSEED=s) at the same absolute path and simulated clock, then an edit and warm "
        "runs from a copy of one cache; every 5th scenario is a -n build under a schedule script fixed by the first run. "
        "P = acyclic project, all modules as arguments, permutations of the argument list. L = directory argument under "
        "permuted FileSystemCache.listdir. I = 1-4 earlier unrelated builds (main / api.run / daemon Server; some with "
        "blockers) in the same interpreter. evaluations = mypy runs executed. Non-trivial = scenario whose output has >=3 "
        "lines (and >=6 cache records for H / >=3 file arguments for P,L / >=1 earlier build for I); distinct by digest."
    )
    rep.real_components = ["whole mypy build in real interpreters with different hash seeds", "cache writers (both stores, both formats)", "mypy.api.run, dmypy Server in-process (family I)"]
    rep.stub_components = ["typeshed (lib-stub + fixture builtins)", "clock (SimClock, so that mtime fields in records are equal by construction)"]
    rep.assumptions = ["variants of one scenario run at the same absolute directory (cache records embed absolute paths)"]
    sizes = {"H": 40, "P": 24, "L": 8, "I": 24} if tier == "quick" else dict(FAMILY)
    items = [(f, k, tier) for f, n in sizes.items() for k in kit.sample_indices(PROP, f, FAMILY[f], n)]
    known = kit.load_known_findings(PROP)
    results, skipped = kit.run_pool(task, items, budget_s=900 if tier == "quick" else 3 * 3600)
    results.sort(key=lambda r: (r["family"], r["k"]))
    by_class: dict[str, list[dict[str, Any]]] = {}
    for r in results:
        rep.add_result(r)
        if "violation" in r:
            v = r["violation"]
            by_class.setdefault(v["family"] + ":" + v["violation"]["kind"], []).append(v)
    kit.dump_raw(PROP, tier, by_class)
    unknown: dict[str, list[dict[str, Any]]] = {}
    for cls, vs in sorted(by_class.items()):
        for v in vs:
            e = kit.match_member(v, known) or next((e for e in known if e.get("match", {}).get("kind") == v["violation"]["kind"] and "members" not in e.get("match", {})), None)
            if e is not None:
                rep.known_finding(e["what"])
                continue
            unknown.setdefault(cls, []).append(v)
    for v in kit.finalise_classes(finalise_task, unknown):
        path = kit.write_replay(PROP, {"engine": "histsim/multi-zygote", **v})
        rep.violation(path, f"{v['cls']} members={v['members'][:10]}")
    rep.extra["family_sizes"] = sizes
    rep.extra["skipped_for_budget"] = skipped
    rep.write()
    print(f"C10 {tier}: {rep.evaluations} runs over {len(results)} scenarios, {len(rep.nontrivial)} non-trivial, {len(rep.violations)} violations, {len(rep.known)} known findings")
    return rep.exit_code()


def replay(path: str) -> int:
    with open(path) as f:
        rp = json.load(f)
    r = EVAL[rp["family"]](rp["scenario"], "replay")
    print(json.dumps(r["violation"], indent=1, default=str)[:3000])
    if r["violation"] is not None:
        print(f"VIOLATION property={PROP} replay={path}")
        return 1
    print("replay: no violation")
    return 0
