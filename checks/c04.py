"""C04 — a killed run or failed cache write never makes later runs wrong.

Engine: sim/histsim.py + StoreShim fault plans (sim/runner.py).
Scenario: project P0, warm-up run(s), edit step -> P1, a *faulted* run on P1, then a
clean warm run on P1 which must equal cold(P1).

Fault plans, per scenario, ENUMERATED over the op log of the clean execution of the
same run (recorded first, from the same cache snapshot):
  * crash before every mutating store op (write/remove/commit/commit_path) and after
    the last op  == every durable intermediate state of the run
  * every single write turned into a failure (through the store's own error path)
  * torn temp-file write + crash (file store)
  * every record kind failing (all data / all meta / all meta_ex writes), all writes failing
then SAMPLED: random subsets of write failures (p in 0.1/0.3/0.7), two faulted runs in
a row, and a further edit between the faulted and the clean run.
"""

from __future__ import annotations

import copy
import json
import os
import shutil
from typing import Any

from sim import histsim, kit, project, runner

PROP = "C04"
FAMILY = {"seq": 128, "par": 24, "plugraw": 24}  # finite scenario families (members are independent of VERIF_SEED)
MUTATING = ("write", "remove", "commit", "commit_path")


def snapshot(h: histsim.History, tag: str) -> str:
    src = h.world.cache_dir("warm")
    dst = os.path.join(h.world.root, "snap_" + tag)
    kit.rmtree(dst)
    if os.path.isdir(src):
        shutil.copytree(src, dst)
    else:
        os.makedirs(dst)
    return dst


def restore(h: histsim.History, snap: str) -> None:
    dst = h.world.cache_dir("warm")
    kit.rmtree(dst)
    shutil.copytree(snap, dst)


def sem_pos(log: list[list[Any]], n: int) -> list[Any]:
    """Semantic name of op number n: (kind, record name, occurrence index)."""
    _, kind, name = log[n - 1]
    occ = sum(1 for e in log[: n - 1] if e[1] == kind and e[2] == name)
    return [kind, name, occ]


def resolve(log: list[list[Any]], pos: list[Any]) -> int | None:
    kind, name, occ = pos
    c = 0
    for e in log:
        if e[1] == kind and e[2] == name:
            if c == occ:
                return int(e[0])
            c += 1
    return None


def fault_plans(log: list[list[Any]], cfg: dict[str, Any], rng: Any, n_random: int) -> list[dict[str, Any]]:
    """All enumerated plans for one recorded clean run + sampled subsets (semantic form)."""
    plans: list[dict[str, Any]] = []
    mut = [e for e in log if e[1] in MUTATING]
    for e in mut:
        plans.append({"kind": "crash_before", "pos": sem_pos(log, e[0])})
    if log:
        plans.append({"kind": "crash_after", "pos": sem_pos(log, log[-1][0])})
    writes = [e for e in log if e[1] == "write"]
    for e in writes:
        plans.append({"kind": "fail_write", "pos": sem_pos(log, e[0])})
        if cfg["store"] == "files":
            plans.append({"kind": "torn_write", "pos": sem_pos(log, e[0])})
    for e in log:
        if e[1] == "remove":
            plans.append({"kind": "fail_remove", "pos": sem_pos(log, e[0])})
    for rk in ("data", "meta", "meta_ex"):
        plans.append({"kind": "fail_kind", "record": rk})
    plans.append({"kind": "fail_all_writes"})
    commits = [e for e in log if e[1] in ("commit", "commit_path")]
    if cfg["store"] == "sqlite":
        for e in commits:
            plans.append({"kind": "fail_commit", "pos": sem_pos(log, e[0])})
    for i in range(n_random):
        p = rng.choice([0.1, 0.3, 0.7])
        sub = [sem_pos(log, e[0]) for e in writes if rng.random() < p]
        if sub:
            plans.append({"kind": "fail_subset", "positions": sub, "p": p})
    return plans


def plan_to_faults(plan: dict[str, Any], log: list[list[Any]]) -> dict[str, Any] | None:
    k = plan["kind"]
    if k in ("crash_before", "crash_after", "fail_write", "torn_write", "fail_commit", "fail_remove"):
        n = resolve(log, plan["pos"])
        if n is None:
            return None
        if k == "crash_before":
            return {"crash_before": n}
        if k == "crash_after":
            return {"crash_after": n}
        if k == "torn_write":
            return {"torn_at": n}
        return {"fail_ops": {str(n): "enospc"}}
    if k == "fail_kind":
        return {"fail_kinds": [plan["record"]]}
    if k == "fail_all_writes":
        return {"fail_all_writes": True}
    if k == "fail_subset":
        ops = {}
        for pos in plan["positions"]:
            n = resolve(log, pos)
            if n is not None:
                ops[str(n)] = "enospc"
        return {"fail_ops": ops} if ops else None
    raise AssertionError(plan)


def clock_args(scn: dict[str, Any]) -> dict[str, Any]:
    if scn.get("clock") == "tight":
        return {"step_ns": 1_000_000, "same_second_as_prev": True}
    return {"step_ns": 50_000_000}


def judge(warm: dict[str, Any], cold: dict[str, Any]) -> dict[str, Any] | None:
    if warm["status"] not in (0, 1, 2):
        return {"kind": "next_run_abnormal", "status": warm["status"], "detail": (warm.get("traceback") or warm.get("stderr", ""))[-1500:]}
    if runner.same_observable(warm, cold):
        return None
    if runner.soft_difference(warm, cold) is not None:
        return None  # C02's known-finding classes (present without any fault), judged there
    return {"kind": "next_run_differs", "diff": runner.first_difference(warm, cold)}


def bump(h: histsim.History, half: int) -> None:
    """A comment-only change to every second source file: those modules are re-checked against
    the cache records of the others."""
    if h.raw:
        for i, rel in enumerate(sorted(h.raw_files)):
            if i % 2 == half and rel.endswith((".py", ".pyi")):
                h.raw_files[rel] = h.raw_files[rel] + "# bump\n"
    else:
        for i, mid in enumerate(sorted(h.state["mods"])):
            if i % 2 == half:
                h.state["mods"][mid]["pad"] = h.state["mods"][mid].get("pad", 0) + 3


def run_revert_leg(h: histsim.History, ca: dict[str, Any], snap_f: str, pre_edit: tuple[Any, Any, Any],
                   colds: dict[str, Any]) -> dict[str, Any] | None:
    """Second continuation after the faulted run: the user undoes the edit (old contents, new
    mtimes) and runs; then touches up one half of the files and runs, then the other half. A record
    of the abandoned edit that the faulted run left behind must not be vouched for again."""
    restore(h, snap_f)
    saved = (copy.deepcopy(h.state), dict(h.raw_files), list(h.raw_argv), h.world.snapshot_files(), dict(h.mtimes))
    try:
        h.state, h.raw_files, h.raw_argv = copy.deepcopy(pre_edit[0]), dict(pre_edit[1]), list(pre_edit[2])
        for name in ("revert", "bump0", "bump1"):
            if name != "revert":
                bump(h, int(name[-1]))
            h.apply_step({"edits": [], "gap_s": 2.0})
            if name not in colds:
                colds[name] = h.cold()
                if colds[name]["status"] not in (0, 1, 2):
                    raise kit.HarnessError(f"cold run abnormal in revert leg: {colds[name]['status']}")
            w = h.run("warm", **ca)
            v = judge(w, colds[name])
            if v is not None:
                v["kind"] = "after_" + name + "_" + v["kind"]
                return v
        return None
    finally:
        h.state, h.raw_files, h.raw_argv = saved[0], saved[1], saved[2]
        h.world.restore_files(saved[3])
        h.mtimes = saved[4]


def evaluate(scn: dict[str, Any], tag: str, only_plan: dict[str, Any] | None = None, n_random: int = 4) -> dict[str, Any]:
    """Executes the scenario with every fault plan (or only_plan); returns violations + stats."""
    h = histsim.History(scn, f"c04-{os.getpid()}-{tag}")
    ca = clock_args(scn)
    stats: dict[str, Any] = {"plans": 0, "fired": {}, "landed_in_protocol": 0, "ops": 0, "by_kind": {}}
    violations: list[dict[str, Any]] = []
    try:
        for _ in range(scn.get("warmups", 1)):
            r0 = h.run("warm", **ca)
            if r0["status"] not in (0, 1, 2):
                raise kit.HarnessError(f"warm-up run abnormal: {r0['status']} {r0.get('traceback') or r0.get('stderr')}")
        pre_edit = (copy.deepcopy(h.state), dict(h.raw_files), list(h.raw_argv))
        for st in scn["steps"]:
            h.apply_step(st)
        snap = snapshot(h, "f0")
        clock0 = h.run_clock_ns
        # clean execution of the run-to-be-faulted, recorded from the same snapshot
        clean = h.run("warm", **ca)
        if clean["status"] not in (0, 1, 2):
            raise kit.HarnessError(f"clean recording run abnormal: {clean['status']} {clean.get('traceback') or clean.get('stderr')}")
        log = clean["oplog"]
        stats["ops"] = len(log)
        cold = h.cold()
        if cold["status"] not in (0, 1, 2):
            raise kit.HarnessError(f"cold run abnormal: {cold['status']}")
        # fault-free leg, judged without relaxation: the clean warm run itself equals cold
        v0 = judge(clean, cold)
        if v0 is not None:
            violations.append({"plan": {"kind": "none"}, "violation": dict(v0, kind="fault_free_" + v0["kind"])})
            return {"violations": violations, "stats": stats, "sim_time_s": h.world.sim_advance_s}
        rng = kit.family_rng(PROP, "plans", kit.digest(scn))
        plans = [only_plan] if only_plan is not None else fault_plans(log, scn["config"], rng, n_random)
        follow = scn.get("followup")  # optional edit between faulted and clean run
        revert_leg = not follow and scn.get("revert_leg", True)
        revert_colds: dict[str, Any] = {}
        if revert_leg:
            # fault-free control: the same continuation after the clean run. A difference here is a matter of
            # the edit history alone (C02's subject), so the revert leg is not judged for this scenario.
            ctrl = run_revert_leg(h, ca, snapshot(h, "fc"), pre_edit, revert_colds)
            if ctrl is not None:
                revert_leg = False
                stats["revert_control_differs"] = 1
        for plan in plans:
            faults = plan_to_faults(plan, log)
            if faults is None:
                continue
            restore(h, snap)
            h.run_clock_ns = clock0
            fr = h.run("warm", faults=faults, **ca)
            stats["plans"] += 1
            stats["by_kind"][plan["kind"]] = stats["by_kind"].get(plan["kind"], 0) + 1
            for k, n in fr.get("fired", {}).items():
                stats["fired"][k] = stats["fired"].get(k, 0) + n
            flog = fr.get("oplog", [])
            if plan["kind"].startswith("crash") or plan["kind"] == "torn_write":
                if fr["status"] != "crashed":
                    raise kit.HarnessError(f"crash plan did not crash: {plan} status={fr['status']}")
                if any(e[1] == "write" for e in flog):
                    stats["landed_in_protocol"] += 1
            elif fr.get("fired"):
                stats["landed_in_protocol"] += 1
            if plan.get("second"):
                f2 = plan_to_faults(plan["second"], log)
                if f2:
                    h.run("warm", faults=f2, **ca)
            # the revert continuation triples the cost of a plan: every plan of the hand-shaped plugin
            # members, every third plan (fixed by position) of the generated members
            n_plan = stats["plans"]
            snap_f = snapshot(h, "f1") if revert_leg and (only_plan is not None or "files" in scn or n_plan % 3 == 0) else None
            this_cold = cold
            if follow:
                # a further edit before the clean run (state restored afterwards)
                saved_state = copy.deepcopy(h.state)
                saved_files = h.world.snapshot_files()
                saved_mtimes = dict(h.mtimes)
                h.apply_step(follow)
                this_cold = h.cold()
            nxt = h.run("warm", **ca)
            v = judge(nxt, this_cold)
            if follow:
                h.state = saved_state
                h.world.restore_files(saved_files)
                h.mtimes = saved_mtimes
            if v is None and snap_f is not None:
                v = run_revert_leg(h, ca, snap_f, pre_edit, revert_colds)
            if v is not None:
                v["faulted_run_status"] = fr["status"]
                violations.append({"plan": plan, "violation": v})
                if only_plan is None and len(violations) >= 6:
                    break
    finally:
        sim = h.world.sim_advance_s
        h.close()
    return {"violations": violations, "stats": stats, "sim_time_s": sim}


# --------------------------------------------------------------------------
# parallel leg: crash points and store faults inside the workers and the coordinator of -n N


def run_par(scn: dict[str, Any], h: histsim.History, script: list[int] | None, faults: dict[str, Any] | None,
            worker_faults: dict[str, Any] | None, kill_at: int | None, tag: str) -> dict[str, Any]:
    cfg = scn["config"]
    prefix = os.path.join(h.world.root, f"wlog-{tag}-")
    ps = {
        "workers": scn["par"]["workers"], "sched_seed": scn["par"]["sched_seed"], "script": script, "policy": {},
        "store": cfg["store"], "num_shards": cfg.get("shards", 0), "worker_faults": worker_faults or {},
        "kill_all_at_decision": kill_at, "worker_oplog_prefix": prefix, "parlog_path": os.path.join(h.world.root, f"par-{tag}.log"),
    }
    for f in os.listdir(h.world.root):
        if f.startswith(f"wlog-{tag}-") or f == f"par-{tag}.log":
            os.unlink(os.path.join(h.world.root, f))
    r = h.run("warm", extra=["-n", str(ps["workers"])], faults=faults or {}, pre_hook=["sim.parsched", "install"], par=ps)
    wl = {}
    for i in range(ps["workers"]):
        pth = prefix + f"{i}.json"
        if os.path.exists(pth):
            try:
                with open(pth) as f:
                    wl[i] = json.load(f)
            except ValueError:
                wl[i] = {"log": [], "fired": {}}
    r["worker_logs"] = wl
    return r


def evaluate_par(scn: dict[str, Any], tag: str, only_plan: dict[str, Any] | None = None, max_plans: int = 60) -> dict[str, Any]:
    h = histsim.History(scn, f"c04p-{os.getpid()}-{tag}")
    stats: dict[str, Any] = {"plans": 0, "fired": {}, "landed_in_protocol": 0, "ops": 0, "by_kind": {}}
    violations: list[dict[str, Any]] = []
    SEQ = ["--native-parser"]
    try:
        r0 = h.run("warm", extra=SEQ)
        if r0["status"] not in (0, 1, 2):
            raise kit.HarnessError(f"warm-up abnormal: {r0['status']}")
        for st in scn["steps"]:
            h.apply_step(st)
        snap = snapshot(h, "p0")
        clock0 = h.run_clock_ns
        clean = run_par(scn, h, None, None, None, None, "c")
        if clean["status"] not in (0, 1, 2) or "par" not in clean:
            raise kit.HarnessError(f"clean parallel run abnormal: {clean['status']} {str(clean.get('traceback'))[-600:]}")
        script = clean["par"]["decisions"]
        cold = h.cold(extra=SEQ)
        if judge(clean, cold) is not None:
            return {"violations": [], "stats": stats, "sim_time_s": h.world.sim_advance_s, "skipped": "clean parallel run differs from sequential (C07's subject)"}
        stats["ops"] = sum(len(w["log"]) for w in clean["worker_logs"].values()) + len(clean["oplog"])
        plans: list[dict[str, Any]] = []
        for w, wl in sorted(clean["worker_logs"].items()):
            for e in wl["log"]:
                if e[1] in MUTATING:
                    plans.append({"kind": "worker_crash_before", "worker": w, "n": e[0], "op": e[1], "record": runner.record_kind(e[2])})
                if e[1] == "write":
                    plans.append({"kind": "worker_fail_write", "worker": w, "n": e[0], "op": e[1], "record": runner.record_kind(e[2])})
            for rk in ("data", "meta", "meta_ex"):
                plans.append({"kind": "worker_fail_kind", "worker": w, "record": rk})
        for e in clean["oplog"]:
            if e[1] in MUTATING:
                plans.append({"kind": "coordinator_crash_before", "n": e[0], "op": e[1], "record": runner.record_kind(e[2])})
        nd = len(script)
        rng = kit.family_rng(PROP, "parplans", kit.digest(scn))
        for d in sorted(rng.sample(range(1, max(2, nd)), min(12, max(1, nd - 1)))):
            plans.append({"kind": "kill_all_at_decision", "d": d})
        if only_plan is not None:
            plans = [only_plan]
        elif len(plans) > max_plans:
            keep = [p for p in plans if p.get("record") in ("meta", "meta_ex") and p["kind"] == "worker_crash_before"]
            rest = [p for p in plans if p not in keep]
            plans = keep[:max_plans] + rng.sample(rest, max(0, min(len(rest), max_plans - len(keep))))
        for i, plan in enumerate(plans):
            restore(h, snap)
            h.run_clock_ns = clock0
            wf = None
            cf = None
            kill = None
            if plan["kind"] == "worker_crash_before":
                wf = {str(plan["worker"]): {"crash_before": plan["n"]}}
            elif plan["kind"] == "worker_fail_write":
                wf = {str(plan["worker"]): {"fail_ops": {str(plan["n"]): "enospc"}}}
            elif plan["kind"] == "worker_fail_kind":
                wf = {str(plan["worker"]): {"fail_kinds": [plan["record"]]}}
            elif plan["kind"] == "coordinator_crash_before":
                cf = {"crash_before": plan["n"]}
            elif plan["kind"] == "kill_all_at_decision":
                kill = plan["d"]
            fr = run_par(scn, h, script, cf, wf, kill, "f")
            stats["plans"] += 1
            stats["by_kind"][plan["kind"]] = stats["by_kind"].get(plan["kind"], 0) + 1
            fired = dict(fr.get("fired") or {})
            for wl in fr["worker_logs"].values():
                for k_, n_ in (wl.get("fired") or {}).items():
                    fired["worker_" + k_] = fired.get("worker_" + k_, 0) + n_
            if plan["kind"] == "kill_all_at_decision":
                fired["kill_all"] = 1 if fr["status"] not in (0, 1, 2) else 0
            for k_, n_ in fired.items():
                stats["fired"][k_] = stats["fired"].get(k_, 0) + n_
            if any(fired.values()):
                stats["landed_in_protocol"] += 1
            if (i % 2 == 0) or scn["par"].get("next") == "seq":
                nxt = h.run("warm", extra=SEQ)
            else:
                nxt = run_par(scn, h, None, None, None, None, "n")
            v = judge(nxt, cold)
            if v is not None:
                v["faulted_run_status"] = fr["status"]
                violations.append({"plan": plan, "violation": v})
                if only_plan is None and len(violations) >= 6:
                    break
    finally:
        sim = h.world.sim_advance_s
        h.close()
    return {"violations": violations, "stats": stats, "sim_time_s": sim}


def gen_par(k: int, tier: str) -> dict[str, Any]:
    rng = kit.family_rng(PROP, "par", k)
    cfgs = [histsim.STORE_CONFIGS[0], histsim.STORE_CONFIGS[2], histsim.STORE_CONFIGS[0], histsim.STORE_CONFIGS[3]]
    base = histsim.gen_history_scenario(rng, cfg=cfgs[k % len(cfgs)], max_steps=2, max_mods=7, clock_mode="plain")
    for st in base["steps"]:
        st["run"] = False
    scn = dict(base)
    mods = [m for m in sorted(base["project"]["mods"]) if "." not in m]
    scn["project"]["roots"] = sorted(set(scn["project"]["roots"]) | {m for m in mods if rng.random() < 0.5})
    scn["par"] = {"workers": rng.choice([2, 2, 3]), "sched_seed": rng.randrange(1 << 30)}
    scn["clock"] = "spread"
    return scn


def par_task(item: tuple[int, str]) -> dict[str, Any]:
    k, tier = item
    scn = gen_par(k, tier)
    r = evaluate_par(scn, f"p{k}", max_plans=40 if tier == "quick" else 400)
    st = r["stats"]
    out: dict[str, Any] = {
        "k": 100000 + k,
        "evaluations": st["plans"],
        "sim_time_s": r["sim_time_s"],
        "faults": dict({"par_" + a: b for a, b in st["fired"].items()}, **{"plan_" + a: b for a, b in st["by_kind"].items()}),
        "probes": {"par_fault_landed": st["landed_in_protocol"], "par_store_ops_in_clean_run": st["ops"], "par_scenario_skipped": 1 if r.get("skipped") else 0},
        "nontrivial": [kit.digest(scn)] if st["landed_in_protocol"] else [],
        "interleavings": [],
    }
    if r["violations"]:
        out["violations"] = [{"scenario": scn, "plan": v["plan"], "violation": v["violation"], "par": True, "family": "par", "k": k} for v in r["violations"]]
    return out


def gen(k: int, tier: str) -> dict[str, Any]:
    rng = kit.family_rng(PROP, "scn", k)
    cfgs = [c for c in histsim.STORE_CONFIGS if not (c["format"] == "json" and c["shards"] == 1)]
    cfg = cfgs[k % len(cfgs)]
    base = histsim.gen_history_scenario(rng, cfg=cfg, max_steps=3, max_mods=6, clock_mode="plain")
    for st in base["steps"]:
        st["run"] = False
    scn = dict(base)
    scn["warmups"] = rng.choice([1, 1, 2])
    scn["clock"] = rng.choice(["spread", "tight", "tight"])
    rs = kit.family_rng(PROP, "plug", k)  # separate stream: members without a plugin are unchanged
    if rs.random() < 0.25 and scn["project"].get("argv_mode") != "dir":
        # the plugins snapshot is part of the cache validity protocol: the faulted run follows a plugin change
        n0 = rs.randint(0, 5)
        scn["project"] = dict(scn["project"], plugin=n0, plugin_wide=True)
        scn["steps"] = [dict(st) for st in scn["steps"]]
        # the plugin change is the only edit of the last step in two of three members: every module record then
        # stays valid by content, so only the plugins snapshot protects the next run from records of the old plugin
        keep = list(scn["steps"][-1]["edits"]) if rs.random() < 0.34 else []
        scn["steps"][-1]["edits"] = keep + [{"e": "plugin", "mod": "m0", "value": n0 + rs.choice([1, 2])}]
        scn["plug"] = True
    if rng.random() < 0.25:
        st2 = copy.deepcopy(base["project"])
        for st in base["steps"]:
            for e in st["edits"]:
                project.apply_edit(st2, e)
        scn["followup"] = {"edits": [project.gen_edit(rng, st2) for _ in range(rng.randint(1, 2))], "gap_s": 2.0}
    return scn


PLUGRAW_BASE = 200000


def gen_plugraw(k: int) -> dict[str, Any]:
    """Plugin-change members with independent leaf modules (hand-shaped, not from the project model): after a change of
    the plugin every module record is still valid by content and by the interfaces of its dependencies, so the plugins
    snapshot alone decides whether records made by the old plugin are used again after an interrupted run."""
    rng = kit.family_rng(PROP, "plugraw", k)
    cfgs = [c for c in histsim.STORE_CONFIGS if not (c["format"] == "json" and c["shards"] == 1)]
    cfg = cfgs[k % len(cfgs)]
    n0 = rng.randint(0, 5)
    leaves = ["a", "b", "c", "d"][: rng.randint(2, 4)]

    def plug(n: int) -> str:
        return project.PLUGIN_TEXT.format(n=n, t=["int", "str", "bool"][n % 3])

    files = {"mypy.ini": "[mypy]\nplugins = simplug.py\n", "simplug.py": plug(n0),
             "lib.py": "def f1() -> int: ...\ndef g() -> int: ...\n",
             "main.py": "".join(f"import {m}\n" for m in leaves) + "reveal_type(a.x)\n"}
    for m in leaves:
        want = rng.choice(["int", "str", "bool"])
        files[m + ".py"] = f"from lib import f1, g\nx: {want} = f1()\ny: int = g()\n" + ("reveal_type(f1())\n" if rng.random() < 0.5 else "")
    edits: list[dict[str, Any]] = [{"e": "write", "path": "simplug.py", "text": plug(n0 + rng.choice([1, 2]))}]
    if rng.random() < 0.3:
        m = rng.choice(leaves)
        edits.append({"e": "write", "path": m + ".py", "text": files[m + ".py"] + "z: str = g()\n"})
    return {"files": files, "argv": ["main.py"], "config": cfg, "steps": [{"edits": edits, "gap_s": 2.0, "run": False}],
            "warmups": rng.choice([1, 2]), "clock": rng.choice(["spread", "tight"]), "plug": True, "plugraw": True}


def plan_class(plan: dict[str, Any], v: dict[str, Any]) -> str:
    if plan["kind"].startswith(("worker_", "coordinator_", "kill_all")):
        return f"{v['kind']}:{plan['kind']}:{plan.get('op', '')}_{plan.get('record', '')}"
    rec = ""
    if "pos" in plan:
        rec = plan["pos"][0] + "_" + runner.record_kind(plan["pos"][1])
    elif "record" in plan:
        rec = plan["record"]
    return f"{v['kind']}:{plan['kind']}:{rec}"


def task(item: tuple[int, str]) -> dict[str, Any]:
    k, tier = item
    if PLUGRAW_BASE > k >= 100000:
        return par_task((k - 100000, tier))
    scn = gen_plugraw(k - PLUGRAW_BASE) if k >= PLUGRAW_BASE else gen(k, tier)
    r = evaluate(scn, f"s{k}", n_random=3 if tier == "quick" else 10)
    st = r["stats"]
    out: dict[str, Any] = {
        "k": k,
        "evaluations": st["plans"],
        "sim_time_s": r["sim_time_s"],
        "faults": dict(st["fired"], **{"plan_" + a: b for a, b in st["by_kind"].items()}),
        "probes": {"fault_landed_inside_write_protocol": st["landed_in_protocol"], "store_ops_in_clean_run": st["ops"], "revert_leg_control_differs": st.get("revert_control_differs", 0),
                   "clock_" + scn["clock"]: 1, "store_" + scn["config"]["store"] + "_" + scn["config"]["format"]: 1},
        "nontrivial": [kit.digest(scn)] if st["landed_in_protocol"] else [],
        "interleavings": [],
        "n_plans": st["plans"],
    }
    if k % 20 == 0:
        out["sample"] = {"config": scn["config"], "clock": scn["clock"], "steps": scn["steps"][:2], "modules": sorted(scn["project"]["mods"]) if "project" in scn else sorted(scn["files"])}
    if r["violations"]:
        fam, kk = ("plugraw", k - PLUGRAW_BASE) if k >= PLUGRAW_BASE else ("seq", k)
        out["violations"] = [{"scenario": scn, "plan": v["plan"], "violation": v["violation"], "family": fam, "k": kk} for v in r["violations"]]
    return out


def minimise(v: dict[str, Any]) -> dict[str, Any]:
    scn, plan, viol = v["scenario"], v["plan"], v["violation"]

    def still(s2: dict[str, Any]) -> bool:
        try:
            r = evaluate(s2, "m", only_plan=plan)
        except kit.HarnessError:
            return False
        return any(x["violation"]["kind"] == viol["kind"] for x in r["violations"])

    cur = copy.deepcopy(scn)
    if "files" in cur:
        return {"scenario": cur, "plan": plan, "violation": viol}  # hand-shaped members are already minimal
    if "followup" in cur:
        s2 = {k_: v_ for k_, v_ in cur.items() if k_ != "followup"}
        if still(s2):
            cur = s2
    flat = [(i, j) for i, st in enumerate(cur["steps"]) for j in range(len(st["edits"]))]

    def build(sel: list[tuple[int, int]]) -> dict[str, Any]:
        s2 = copy.deepcopy(cur)
        for i, st in enumerate(s2["steps"]):
            st["edits"] = [e for j, e in enumerate(st["edits"]) if (i, j) in sel]
        return s2

    sel = kit.ddmin(flat, lambda s_: still(build(s_)), max_tests=25)
    if sel is not None and still(build(sel)):
        cur = build(sel)
    for mid in sorted(cur["project"]["mods"], reverse=True):
        if mid == "m0":
            continue
        s2 = copy.deepcopy(cur)
        s2["project"]["mods"][mid]["exists"] = False
        for st in s2["steps"]:
            st["edits"] = [e for e in st["edits"] if e["mod"] != mid]
        if still(s2):
            cur = s2
    return {"scenario": cur, "plan": plan, "violation": viol}


def finalise_task(v: dict[str, Any]) -> dict[str, Any]:
    if v.get("par"):
        r = evaluate_par(v["scenario"], "fin", only_plan=v["plan"])
        hit = [x for x in r["violations"] if x["violation"]["kind"] == v["violation"]["kind"]]
        if not hit:
            raise kit.HarnessError(f"parallel-leg violation did not reproduce: {v['plan']}")
        return {"scenario": v["scenario"], "plan": v["plan"], "violation": hit[0]["violation"], "par": True, "family": "par", "k": v.get("k")}
    small = minimise(v)
    r = evaluate(small["scenario"], "fin", only_plan=small["plan"])
    hit = [x for x in r["violations"] if x["violation"]["kind"] == v["violation"]["kind"]]
    if not hit:
        r = evaluate(v["scenario"], "fin", only_plan=v["plan"])
        hit = [x for x in r["violations"] if x["violation"]["kind"] == v["violation"]["kind"]]
        if not hit:
            raise kit.HarnessError(f"violation did not reproduce: {v['plan']} {v['violation']}")
        small = v
    return {"scenario": small["scenario"], "plan": small["plan"], "violation": hit[0]["violation"], "family": v.get("family", "seq"), "k": v.get("k")}


def match_known(cls: str, v: dict[str, Any], known: list[dict[str, Any]]) -> dict[str, Any] | None:
    for e in known:
        m = e.get("match", {})
        if "class_prefix" in m and cls.startswith(m["class_prefix"]):
            if "store" in m and v["scenario"]["config"]["store"] not in m["store"]:
                continue
            return e
    return None


def run(tier: str) -> int:
    rep = kit.Report(PROP, tier, "fault_enumeration")
    rep.rule = (
        "scenario = generated project x store/format config x warm-up x edit step x clock mode (spread: runs seconds apart; "
        "tight: all runs inside one simulated second). For each scenario the clean execution of the run after the edit is "
        "recorded and EVERY plan is executed from the same cache snapshot: crash before each mutating store op and after the "
        "last op, each single write failing, torn temp write (file store), each commit failing (sqlite), all data/meta/meta_ex/"
        "all writes failing, plus sampled write-failure subsets; then a clean warm run is compared with the cold run. "
        "evaluations = fault plans executed. Non-trivial = scenario in which >=1 fault landed inside the write protocol "
        "(crash after the first write of the run, or a failure that fired); distinct by digest of the scenario."
    )
    rep.real_components = ["mypy.main.main", "mypy.build write_cache/write_cache_meta/_meta_ex/validate_meta/find_cache_meta", "mypy.metastore Filesystem+Sqlite stores (real sqlite3, real os.replace)"]
    rep.stub_components = ["typeshed (lib-stub + fixture builtins)", "process death = os._exit(137) inside the store shim at the chosen op", "clock (cache mtimes from SimClock)"]
    rep.assumptions = [
        "a completed syscall / committed sqlite transaction survives the crash (process kill, not power loss)",
        "parallel leg: worker/coordinator crash points and worker store failures are placed on the clean run's fixed schedule (sim/parsched.py); kill-all instants are sampled",
    ]
    n = 16 if tier == "quick" else FAMILY["seq"]
    n_par = 4 if tier == "quick" else FAMILY["par"]
    n_pr = 3 if tier == "quick" else FAMILY["plugraw"]
    items = [(k, tier) for k in kit.sample_indices(PROP, "seq", FAMILY["seq"], n)] + [(100000 + k, tier) for k in kit.sample_indices(PROP, "par", FAMILY["par"], n_par)]
    items += [(PLUGRAW_BASE + k, tier) for k in kit.sample_indices(PROP, "plugraw", FAMILY["plugraw"], n_pr)]
    if os.environ.get("VERIF_C04_ONLY") == "plug":
        items = [it for it in items if it[0] >= PLUGRAW_BASE or (it[0] < 100000 and gen(it[0], tier).get("plug"))]
    if os.environ.get("VERIF_C04_MEMBERS"):  # development aid: only these members of family seq
        want = {int(x) for x in os.environ["VERIF_C04_MEMBERS"].split(",")}
        items = [(k, tier) for k in sorted(want)]
    known = kit.load_known_findings(PROP)
    # determinism self-test: the same scenarios again must give the same plans, faults and verdicts
    n_det = 2 if tier == "quick" else 24
    results, skipped = kit.run_pool(task, items + [it for it in items if it[0] < 100000][:n_det], budget_s=900 if tier == "quick" else 3 * 3600)
    firsts: dict[int, Any] = {}
    dupes = []
    uniq = []
    for r in results:
        sig = kit.digest([r["evaluations"], r["faults"], r["probes"], len(r.get("violations", []))])
        if r["k"] in firsts:
            dupes.append((r["k"], firsts[r["k"]] == sig))
        else:
            firsts[r["k"]] = sig
            uniq.append(r)
    if any(not ok for _, ok in dupes):
        raise kit.HarnessError(f"determinism self-test failed for scenarios {[k for k, ok in dupes if not ok]}")
    results = uniq
    results.sort(key=lambda r: r["k"])
    by_class: dict[str, list[dict[str, Any]]] = {}
    for r in results:
        rep.add_result(r)
        for v in r.get("violations", []):
            by_class.setdefault(plan_class(v["plan"], v["violation"]) + ":" + v["scenario"]["config"]["store"], []).append(v)
    kit.dump_raw(PROP, tier, by_class)
    unknown: dict[str, list[dict[str, Any]]] = {}
    for cls, vs in sorted(by_class.items()):
        for v in vs:
            e = kit.match_member(v, known) or match_known(cls, v, known)
            if e is not None:
                rep.known_finding(f"{e['what']} (class {cls})")
                continue
            unknown.setdefault(cls, []).append(v)
    for v in kit.finalise_classes(finalise_task, unknown):
        path = kit.write_replay(PROP, {"engine": "histsim+faults", **v})
        rep.violation(path, f"{v['cls']} members={v['members'][:10]}")
    rep.exhaustive = skipped == 0
    rep.extra["exhaustive_note"] = "per scenario, all crash positions / single-write failures / record-kind failures are enumerated; scenarios and failure subsets are sampled"
    rep.extra["skipped_for_budget"] = skipped
    rep.extra["determinism_selftest"] = {"scenarios_run_twice": len(dupes), "mismatches": 0}
    rep.write()
    print(f"C04 {tier}: {rep.evaluations} fault plans over {len(results)} scenarios, {len(rep.nontrivial)} non-trivial, "
          f"{len(rep.violations)} violations, {len(rep.known)} known findings")
    return rep.exit_code()


def replay(path: str) -> int:
    with open(path) as f:
        rp = json.load(f)
    if rp.get("par"):
        r = evaluate_par(rp["scenario"], "replay", only_plan=rp["plan"])
    else:
        r = evaluate(rp["scenario"], "replay", only_plan=rp["plan"])
    print(json.dumps(r["violations"], indent=1, default=str)[:4000])
    if r["violations"]:
        print(f"VIOLATION property={PROP} replay={path}")
        return 1
    print("replay: no violation")
    return 0
