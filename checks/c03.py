"""C03 — the daemon's fine-grained updates equal a full check after every edit.

Engine: sim/daemonsim.py.  One `Server` object lives through a whole edit history (generated
project model or a corpus case of fine-grained*.test under a history transform); after EVERY
request a fresh daemon (new Server, first check) on byte- and mtime-identical files is the
oracle.  Compared: status, per file the ordered diagnostics, the set of files, stderr text.
Configurations: follow_imports normal / error / skip; check vs recheck; recheck with explicit
update/remove lists vs fswatcher discovery; simulated clock gaps incl. back-jumps.
"""

from __future__ import annotations

import copy
import json
import os
from typing import Any

from sim import corpus, daemonsim, histsim, kit, project

PROP = "C03"


def file_list(h: histsim.History, mode: str) -> list[str]:
    if h.raw:
        return list(h.raw_argv)
    st = h.state
    if mode == "normal":
        return project.argv_files(st)
    out = []
    for mid, m in sorted(st["mods"].items()):
        if m["exists"]:
            out.append(project.mod_path(st, mid))
            if m.get("stub"):
                out[-1] = project.mod_path(st, mid, stub=True)
    return out


ONCE_MARKERS = ("#missing-imports", "(Using --follow-imports=error, module not passed on command line)", "#incompatible-overrides")


def _strip(o: dict[str, Any], pred: Any) -> dict[str, Any]:
    pf = {}
    for f, lines in o["per_file"].items():
        keep = [l for l in lines if not pred(l)]
        if keep:
            pf[f] = keep
    return dict(o, per_file=pf)


def classify_soft(og: dict[str, Any], oo: dict[str, Any]) -> str | None:
    """Known systematic daemon/fresh differences, each tied to one mechanism (see known_findings.json).
    Returns the class when the two answers become equal after removing exactly that class of lines."""
    if og["crash"] or oo["crash"] or og["err"] != oo["err"] or og.get("error") != oo.get("error"):
        return None
    steps = [
        ("only_once_note", lambda l: ": note: " in l and any(m in l for m in ONCE_MARKERS)),
        ("used_before_def_not_recomputed", lambda l: l.rstrip().endswith("[used-before-def]")),
    ]
    a, b = og, oo
    applied = []
    for name, pred in steps:
        a2, b2 = _strip(a, pred), _strip(b, pred)
        if a2["per_file"] != a["per_file"] or b2["per_file"] != b["per_file"]:
            applied.append(name)
        a, b = a2, b2
        status_ok = a["status"] == b["status"] or ({a["status"], b["status"]} <= {0, 1} and "used_before_def_not_recomputed" in applied)
        if a["per_file"] == b["per_file"] and status_ok and applied:
            return "+".join(applied)
    if {f: sorted(v) for f, v in a["per_file"].items()} == {f: sorted(v) for f, v in b["per_file"].items()} and a["status"] == b["status"]:
        return "+".join(applied + ["order_within_file"])
    return None


def evaluate(scn: dict[str, Any], tag: str) -> dict[str, Any]:
    mode = scn["mode"]
    flags = list(scn.get("flags") or [])
    if mode != "normal":
        flags.append(f"--follow-imports={mode}")
    h = histsim.History(scn, f"c03-{os.getpid()}-{tag}o", stall_ok=scn.get("stall_ok", False))
    rng = kit.family_rng(PROP, "req", kit.digest(scn))
    info: dict[str, Any] = {"steps": 0, "increments": 0, "nontrivial_steps": 0}
    violation = None
    try:
        steps: list[dict[str, Any]] = []
        oracle: list[dict[str, Any]] = []
        if scn.get("prelude"):
            # "In caching mode we currently don't well support starting from cached states with errors
            # in them" (mypy/test/testfinegrained.py): stay inside the supported envelope
            hp = histsim.History({"files": scn["prelude"]["files"], "argv": [], "config": scn["config"], "steps": []}, f"c03-{os.getpid()}-{tag}p")
            try:
                pf = [a for a in scn["prelude"]["argv"] if a.endswith((".py", ".pyi"))]
                pre = kit.fork_call(daemonsim.fresh_child, hp.world.proj, hp.world.lib, flags, {"files": pf}, timeout=120)
            finally:
                hp.close()
            if isinstance(pre, kit.ChildDied) or pre.get("out", "").strip() or pre.get("status") != 0:
                info["skipped"] = "cached state has diagnostics (documented unsupported for the fine-grained cache)"
                return {"violation": None, "info": info, "sim_time_s": 0.0}
        cur = file_list(h, mode)
        files, mt = h.world.snapshot_files()
        req: dict[str, Any] = {"cmd": "check", "files": cur}
        steps.append({"files": files, "mt": mt, "request": req, "changed": []})
        oracle.append(kit.fork_call(daemonsim.fresh_child, h.world.proj, h.world.lib, flags, {"files": cur}, timeout=120))
        for st in scn["steps"]:
            changed = h.apply_step(st)
            if not st.get("run", True):
                continue
            new = file_list(h, mode)
            files, mt = h.world.snapshot_files()
            if not new:
                continue
            style = st.get("request") or scn.get("req_style") or "auto"
            if new != cur or style == "check":
                req = {"cmd": "check", "files": new}
            elif mode != "normal" and style == "lists":
                req = {"cmd": "recheck", "update": [c for c in changed if c in files and c in new], "remove": None}
                if not req["update"]:
                    req = {"cmd": "recheck"}
            else:
                req = {"cmd": "recheck"}
            cur = new
            steps.append({"files": files, "mt": mt, "request": req, "changed": changed})
            oracle.append(kit.fork_call(daemonsim.fresh_child, h.world.proj, h.world.lib, flags, {"files": cur}, timeout=120))
        for o in oracle:
            if isinstance(o, kit.ChildDied):
                raise kit.HarnessError(f"oracle daemon died: {o!r} {o.output[-600:]}")
        root = kit.new_dir(f"c03-{os.getpid()}-{tag}d")
        try:
            got = kit.fork_call(daemonsim.history_child, root, None if h.raw else "dataclasses.pyi", flags,
                                [{"files": s["files"], "mt": s["mt"], "request": s["request"]} for s in steps], scn.get("prelude"),
                                timeout=300, output_path=os.path.join(root, "child.out"))
        finally:
            kit.rmtree(root)
        if isinstance(got, kit.ChildDied):
            return {"violation": {"kind": "daemon_process_died", "detail": repr(got) + got.output[-1500:]}, "info": info, "sim_time_s": h.world.sim_advance_s}
        for i, (g, o, s) in enumerate(zip(got, oracle, steps)):
            info["steps"] += 1
            if i > 0:
                info["increments"] += 1
                if s["changed"]:
                    info["nontrivial_steps"] += 1
            if "crash" in g:
                if "crash" in o:
                    continue  # the same input crashes a fresh daemon too: C20's business
                violation = {"kind": "daemon_crashed", "step": i, "request": s["request"], "detail": g["crash"][-1500:]}
                break
            if "crash" in o:
                continue
            og, oo = daemonsim.observable(g), daemonsim.observable(o)
            # the summary line ("Found N errors ... (checked K source files)") is not a diagnostic: the
            # daemon counts followed modules as sources by design; the error count is implied by per_file
            og["other"] = [l for l in og["other"] if not l.startswith(("Found ", "Success: "))]
            oo["other"] = [l for l in oo["other"] if not l.startswith(("Found ", "Success: "))]
            if og != oo:
                soft = classify_soft(og, oo)
                if soft is not None:
                    info.setdefault("soft", {})
                    info["soft"][soft] = info["soft"].get(soft, 0) + 1
                    continue
                d: dict[str, Any] = {"step": i, "request": {k: v for k, v in s["request"].items()}, "changed": s["changed"]}
                if og["status"] != oo["status"] and og["per_file"] == oo["per_file"] and og["err"] == oo["err"]:
                    violation = {"kind": "status_differs_only", "daemon": og["status"], "fresh": oo["status"], **d}
                else:
                    fdiff = [f for f in sorted(set(og["per_file"]) | set(oo["per_file"])) if og["per_file"].get(f) != oo["per_file"].get(f)]
                    violation = {"kind": "daemon_differs", "files": fdiff[:3],
                                 "daemon": {f: og["per_file"].get(f) for f in fdiff[:2]}, "fresh": {f: oo["per_file"].get(f) for f in fdiff[:2]},
                                 "status": [og["status"], oo["status"]], "err": [og["err"][-300:], oo["err"][-300:]], "other": [og["other"], oo["other"]], **d}
                break
        if len(got) < len(steps) and violation is None:
            violation = {"kind": "daemon_stopped_answering", "answered": len(got), "of": len(steps)}
    finally:
        sim = h.world.sim_advance_s
        h.close()
    return {"violation": violation, "info": info, "sim_time_s": sim}


def gen(k: int, tier: str) -> dict[str, Any]:
    rng = kit.family_rng(PROP, "scn", k)
    scn = histsim.gen_history_scenario(rng, cfg=histsim.STORE_CONFIGS[0], max_steps=6 if tier == "quick" else 14, clock_mode=rng.choice(["plain", "wild"]))
    scn["mode"] = rng.choice(["normal", "normal", "error", "skip"])
    for st in scn["steps"]:
        st["run"] = rng.random() < 0.9
        st["request"] = rng.choice(["auto", "auto", "check", "lists"])
    scn["steps"][-1]["run"] = True
    return scn


_fg_cases: list[dict[str, Any]] | None = None


def fg_cases() -> list[dict[str, Any]]:
    global _fg_cases
    if _fg_cases is None:
        out = []
        for fn in ("fine-grained.test", "fine-grained-modules.test", "fine-grained-blockers.test", "fine-grained-cycles.test", "fine-grained-follow-imports.test", "fine-grained-attr.test", "fine-grained-dataclass.test", "fine-grained-dataclass-transform.test", "fine-grained-inspect.test", "fine-grained-python312.test"):
            try:
                cs = corpus.load_file(fn)
            except OSError:
                continue
            for c in cs:
                if corpus.usable(c) and len(c["steps"]) >= 2:
                    c = dict(c, follow="follow-imports" in fn)
                    out.append(c)
        # hand-written cases (chains of modules changed at once, re-export-only edits); appended, so the
        # repository's cases keep their positions
        for c in corpus.load_file(os.path.join(os.path.dirname(os.path.abspath(__file__)), "..", "sim", "synthetic-follow-imports.test")):
            if corpus.usable(c) and len(c["steps"]) >= 2:
                out.append(dict(c, follow=True))
        _fg_cases = out
    return _fg_cases


TRANSFORMS = corpus.TRANSFORMS + ["from_cache"]


STYLES = ["check", "recheck"]


_members: list[tuple[int, int, int]] | None = None


def members() -> list[tuple[int, int, int]]:
    """(case index, transform index, style index) of every member of the finite family. `recheck` without
    arguments re-runs the same increment as `check <same files>` unless imports are followed, so the
    recheck style is a separate member only for the follow-imports cases."""
    global _members
    if _members is None:
        cases = fg_cases()
        _members = [(ci, ti, si) for si in range(len(STYLES)) for ti in range(len(TRANSFORMS)) for ci in range(len(cases))
                    if si == 0 or cases[ci].get("follow")]
    return _members


def family_size() -> int:
    return len(members())


def gen_corpus(k: int, tier: str) -> dict[str, Any] | None:
    """Corpus case x history transform -> raw-file scenario."""
    cases = fg_cases()
    member = k  # member index of the finite family
    rng = kit.family_rng(PROP, "corpus-member", member)
    ci, ti, si = members()[member % family_size()]
    c, tr, style = cases[ci], TRANSFORMS[ti], STYLES[si]
    flags = corpus.step_flags(c, 0)
    files0 = dict(c["steps"][0])
    prelude_files = None
    if tr == "from_cache":
        trees = corpus.trees_of(c)
        prelude_files = trees[0]
        start = trees[1]
        steps = [{"edits": corpus.delta(trees[i], trees[i + 1]), "gap_s": 2.0, "run": True, "tree": i + 1} for i in range(1, len(trees) - 1)]
    else:
        start, steps = corpus.transform_history(c, tr, rng)
    argv = [a for a in corpus.step_argv(c, 0) if not a.startswith("-")]
    if argv == ["main.py"] and not c.get("follow"):
        # the suite passes every module of the case as a source in non-following mode
        argv = sorted(p for p in files0 if p.endswith((".py", ".pyi")) and p not in ("builtins.pyi", "typing.pyi", "_typeshed.pyi"))
    mode = "normal" if c.get("follow") else "error"
    fl = [f for f in flags if not f.startswith("--follow-imports")]
    if not c["name"].endswith("_no_empty"):
        fl.append("--allow-empty-bodies")  # what the suite sets for these cases (testfinegrained.py)
    scn = {"files": start, "argv": argv, "config": histsim.STORE_CONFIGS[0], "steps": steps, "mode": mode, "flags": fl,
           "case": c["file"] + "::" + c["name"], "transform": tr, "dynamic_argv": not c.get("follow"), "req_style": style, "member": member}
    if c.get("follow"):
        # the case's own per-step command lines (# cmdN:), restricted to files that exist at that moment
        cur = dict(start)
        for st in steps:
            for e in st["edits"]:
                if e["e"] == "write":
                    cur[e["path"]] = e["text"]
                elif e["e"] == "delete":
                    cur.pop(e["path"], None)
            want = [a for a in corpus.step_argv(c, st.get("tree", 0)) if not a.startswith("-")]
            st["edits"] = st["edits"] + [{"e": "argv", "argv": [a for a in want if a in cur] or ["main.py"]}]
        first = steps[0].get("start_tree", 0) if steps else 0
        scn["argv"] = [a for a in corpus.step_argv(c, 1 if prelude_files is not None else first) if not a.startswith("-") and a in start] or scn["argv"]
    if prelude_files is not None:
        t0 = 999_999_900.0
        pargv = [p for p in argv if p in prelude_files] or ["main.py"]
        scn["prelude"] = {"files": prelude_files, "mt": {p: t0 for p in prelude_files},
                          "argv": pargv + ["--cache-fine-grained", "--cache-dir", ".fgcache"] + fl + ([] if mode == "normal" else [f"--follow-imports={mode}"])}
        scn["flags"] = fl + ["--use-fine-grained-cache", "--cache-dir", ".fgcache"]
        scn["argv"] = [p for p in argv if p in start] or argv
    return scn


def task(item: tuple[str, int, str]) -> dict[str, Any]:
    fam, k, tier = item
    scn = gen(k, tier) if fam == "model" else gen_corpus(k, tier)
    assert scn is not None
    if fam == "corpus" and scn.get("dynamic_argv"):
        # sources follow the tree: files added later are passed too (what the suite does)
        cur = set(scn["files"])
        for st in scn["steps"]:
            for e in st["edits"]:
                if e["e"] == "write":
                    cur.add(e["path"])
                elif e["e"] == "delete":
                    cur.discard(e["path"])
            st["edits"] = st["edits"] + [{"e": "argv", "argv": sorted(p for p in cur if p.endswith((".py", ".pyi")) and p not in ("builtins.pyi", "typing.pyi", "_typeshed.pyi"))}]
    r = evaluate(scn, f"{fam}{k}")
    info = r["info"]
    out: dict[str, Any] = {
        "family": fam,
        "k": k,
        "evaluations": info["steps"],
        "sim_time_s": r["sim_time_s"],
        "faults": {"mode_" + scn["mode"]: 1, "family_" + fam: 1, **({"transform_" + scn["transform"]: 1} if fam == "corpus" else {"clock_" + str(scn.get("clock_mode")): 1})},
        "probes": dict({"from_cache_skipped_cached_errors": 1 if info.get("skipped") else 0, "increments_checked": info["increments"], "increments_after_real_change": info["nontrivial_steps"]}, **{"soft_" + k_: v_ for k_, v_ in (info.get("soft") or {}).items()}),
        "nontrivial": [kit.digest([scn.get("case"), scn.get("transform"), scn.get("project"), scn["steps"], scn["mode"]])] if info["nontrivial_steps"] else [],
        "interleavings": [],
    }
    if k < 1:
        out["sample"] = {"family": fam, "mode": scn["mode"], "case": scn.get("case"), "transform": scn.get("transform"), "steps": [[e.get("e") for e in st["edits"]] for st in scn["steps"]][:6]}
    if r["violation"] is not None:
        v = r["violation"]
        if fam == "corpus" and scn.get("req_style") == "recheck" and scn["mode"] == "normal" and v["kind"] in ("daemon_differs", "status_differs_only"):
            # counterfactual replay: the same history with `check <files>` instead of `recheck`
            cf = evaluate(dict(scn, req_style="check"), f"cf{k}")["violation"]
            if cf is None:
                v = dict(v, kind="recheck_follow_imports_keeps_unreferenced_modules")
        out["violation"] = {"family": fam, "scenario": scn, "violation": v, "k": k}
    return out


def vkey(v: dict[str, Any]) -> str:
    if v["family"] == "corpus":
        if v["violation"]["kind"] == "recheck_follow_imports_keeps_unreferenced_modules":
            return "corpus:" + v["violation"]["kind"]
        return f"corpus:{v['scenario']['case']}:{v['scenario']['transform']}:{v['scenario'].get('req_style')}:{v['violation']['kind']}"
    return f"model:{v['violation']['kind']}"


def minimise(v: dict[str, Any]) -> dict[str, Any]:
    scn, viol = v["scenario"], v["violation"]

    def still(s2: dict[str, Any]) -> bool:
        try:
            r = evaluate(s2, "m")
        except kit.HarnessError:
            return False
        return r["violation"] is not None and r["violation"]["kind"] == viol["kind"]

    def fails_steps(steps: list[dict[str, Any]]) -> bool:
        if not steps:
            return False
        s2 = dict(scn, steps=[dict(st, run=True) if i == len(steps) - 1 else dict(st) for i, st in enumerate(steps)])
        return still(s2)

    steps = kit.ddmin(scn["steps"], fails_steps, max_tests=30)
    if steps and fails_steps(steps):
        scn = dict(scn, steps=[dict(st) for st in steps])
        scn["steps"][-1]["run"] = True
    if "project" in scn:
        flat = [(i, j) for i, st in enumerate(scn["steps"]) for j in range(len(st["edits"]))]

        def build(sel: list[tuple[int, int]]) -> dict[str, Any]:
            s2 = copy.deepcopy(scn)
            for i, st in enumerate(s2["steps"]):
                st["edits"] = [e for j, e in enumerate(st["edits"]) if (i, j) in sel]
            return s2

        sel = kit.ddmin(flat, lambda s_: still(build(s_)), max_tests=30)
        if sel and still(build(sel)):
            scn = build(sel)
        for mid in sorted(scn["project"]["mods"], reverse=True):
            if mid == "m0":
                continue
            s2 = copy.deepcopy(scn)
            s2["project"]["mods"][mid]["exists"] = False
            for st in s2["steps"]:
                st["edits"] = [e for e in st["edits"] if e["mod"] != mid]
            if still(s2):
                scn = s2
    return {"family": v["family"], "scenario": scn, "violation": viol}


def finalise_task(v: dict[str, Any]) -> dict[str, Any]:
    if v["violation"]["kind"] == "recheck_follow_imports_keeps_unreferenced_modules":
        return {"family": v["family"], "scenario": v["scenario"], "violation": v["violation"], "k": v.get("k")}
    small = minimise(v)
    r = evaluate(small["scenario"], "fin")
    if r["violation"] is None or r["violation"]["kind"] != v["violation"]["kind"]:
        r = evaluate(v["scenario"], "fin")
        if r["violation"] is None or r["violation"]["kind"] != v["violation"]["kind"]:
            raise kit.HarnessError(f"violation did not reproduce: {vkey(v)}")
        small = v
    return {"family": v["family"], "scenario": small["scenario"], "violation": r["violation"]}


def match_known(v: dict[str, Any], known: list[dict[str, Any]]) -> dict[str, Any] | None:
    for e in known:
        m = e.get("match", {})
        if "case" in m:
            if (v["family"] == "corpus" and v["scenario"]["case"] == m["case"]
                    and [v["scenario"]["transform"], v["scenario"].get("req_style")] in m.get("members", [])
                    and v["violation"]["kind"] not in ("recheck_follow_imports_keeps_unreferenced_modules",)):
                return e
        elif m.get("kind") == v["violation"]["kind"] and m.get("family", v["family"]) == v["family"] and "members" not in m:
            return e
    return None


def run(tier: str) -> int:
    rep = kit.Report(PROP, tier, "exploration")
    rep.rule = (
        "two scenario sources: 'model' = generated project + seeded edit history (3-15 steps; bodies, signatures, attributes, "
        "bases, imports, module add/delete, stub add/remove, syntax break/heal, touch) under follow_imports normal/error/skip, "
        "requests check / recheck / recheck with explicit update lists; 'corpus' = a multi-step case of fine-grained*.test under a "
        "history transform (forward, revert to first, revert to previous and redo, skip a step, one file at a time, touch noise). "
        "After every request the daemon's answer is compared with a fresh daemon on identical files. evaluations = compared "
        "requests. Non-trivial = history with >=1 increment after a real file change; distinct by digest."
    )
    rep.real_components = ["mypy.dmypy_server.Server (cmd_check, cmd_recheck, fine_grained_increment*, fswatcher)", "mypy.server.update/deps/astdiff/astmerge/aststrip", "mypy.fscache, mypy.fswatcher"]
    rep.stub_components = ["IPC transport (requests are method calls; the transport is C16's subject)", "typeshed (lib-stub + fixtures)", "clock (file mtimes from the SimClock)"]
    rep.assumptions = ["a content-changing edit changes (mtime, size) of the file (fswatcher hashes only then)", "edits happen between requests", "the oracle also runs in daemon mode (fine_grained_incremental), because daemon mode changes some message texts by design"]
    n_model = 110 if tier == "quick" else 3000
    n_corpus = 170 if tier == "quick" else family_size()
    items = [("model", k, tier) for k in range(n_model)] + [("corpus", k, tier) for k in kit.sample_indices(PROP, "corpus", family_size(), n_corpus)]
    # The generated-model family is exploration only (DESIGN 9.7): it reaches genuine fine-grained
    # defects faster than they can be listed one by one, and being infinite it cannot be swept, so the
    # registered check is the finite corpus x transform family. VERIF_C03_FAMILY=model|all enables it.
    only = os.environ.get("VERIF_C03_FAMILY", "corpus")
    if only != "all":
        items = [it for it in items if it[0] == only]
    # the hand-written cases are few: every tier runs all their members
    have = {it[1] for it in items if it[0] == "corpus"}
    synth = [k for k, (ci, _, _) in enumerate(members()) if fg_cases()[ci]["file"].startswith("synthetic")]
    items += [("corpus", k, tier) for k in synth if k not in have]
    sub = os.environ.get("VERIF_C03_CASE")
    if sub:
        items = [it for it in items if it[0] == "corpus" and sub in fg_cases()[members()[it[1]][0]]["file"] + "::" + fg_cases()[members()[it[1]][0]]["name"]]
    known = kit.load_known_findings(PROP)
    results, skipped = kit.run_pool(task, items, budget_s=900 if tier == "quick" else 4 * 3600)
    results.sort(key=lambda r: (r["family"], r["k"]))
    by_class: dict[str, list[dict[str, Any]]] = {}
    for r in results:
        rep.add_result(r)
        if "violation" in r:
            by_class.setdefault(vkey(r["violation"]), []).append(r["violation"])
    kit.dump_raw(PROP, tier, by_class)
    unknown: dict[str, list[dict[str, Any]]] = {}
    for cls, vs in sorted(by_class.items()):
        for v in vs:
            e = match_known(v, known)
            if e is not None:
                rep.known_finding(e["what"])
                rep.probes["known_members"] = rep.probes.get("known_members", 0) + 1
                continue
            unknown.setdefault(cls, []).append(v)
    for v in kit.finalise_classes(finalise_task, unknown):
        path = kit.write_replay(PROP, {"engine": "daemonsim", **v})
        rep.violation(path, f"{v['cls']} members={[m[1] for m in (v.get('members') or [])][:10]}")
    rep.extra["corpus_cases"] = len(fg_cases())
    rep.extra["skipped_for_budget"] = skipped
    rep.write()
    print(f"C03 {tier}: {rep.evaluations} compared requests over {len(results)} histories, {len(rep.nontrivial)} non-trivial, {len(rep.violations)} violations, {len(rep.known)} known findings")
    return rep.exit_code()


def replay(path: str) -> int:
    with open(path) as f:
        rp = json.load(f)
    r = evaluate(rp["scenario"], "replay")
    print(json.dumps(r["violation"], indent=1, default=str)[:3000])
    if r["violation"] is not None:
        print(f"VIOLATION property={PROP} replay={path}")
        return 1
    print("replay: no violation")
    return 0
