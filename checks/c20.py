"""C20 — any input produces diagnostics, never an internal failure: the storage-fault sub-space.

Only the part of the quantifier this technique family can own is claimed: inputs that arise
from FAULTY SAVES of real programs.  Seed corpus: the programs of test-data/unit/check-*.test
(read with the repository's own reader, with their fixtures and flags).  Fault operators at
"sector" granularity (a sector = one line, 16 bytes or 64 bytes): torn write (truncate),
splice (new prefix + old suffix: of the next corpus program saved over this one), lost
sector, duplicated sector, reordered sectors, one flipped byte.

Batch leg (sim/histsim.py, shared cache):   run(P) ; faulty save ; run ; heal ; run
Daemon leg (sim/daemonsim.py, one Server):  check(P) ; faulty save ; recheck ; heal ; recheck
Every run/request must end with status 0/1/2, no INTERNAL ERROR, no traceback, no hang, only
well-formed message lines; after the heal the output equals the first one again.
The explored set is a finite family (case x operator x sector size x position index); VERIF_SEED
selects a sample of it.
"""

from __future__ import annotations

import glob
import json
import os
import re
from typing import Any

from sim import corpus, daemonsim, histsim, kit, runner

PROP = "C20"
OPERATORS = ["torn", "splice", "lost", "dup", "swap", "flip"]
SECTORS = ["line", 16, 64]
NPOS = 3
STRIDE = 29  # registered family = members 0, 29, 58, ... of the full product
FIXTURE_FILES = ("builtins.pyi", "typing.pyi", "_typeshed.pyi")
LINE_RE = re.compile(r"^[^\s:][^:\n]*:(\d+:)?(\d+:)?(\d+:\d+:)? (error|note|warning): ")
OTHER_OK = re.compile(r"^(Found \d+ errors? in \d+ files? \(.*\)|Success: no issues found in \d+ source files?|mypy: .*|\s.*|)$")

_cases: list[dict[str, Any]] | None = None


def cases() -> list[dict[str, Any]]:
    global _cases
    if _cases is None:
        out = []
        for path in sorted(glob.glob(os.path.join(corpus.UNIT, "check-*.test"))):
            for c in corpus.load_file(os.path.basename(path)):
                if corpus.usable(c) and len(c["steps"]) == 1:
                    out.append(c)
        _cases = out
    return _cases


def sectors(text: str, size: Any) -> list[str]:
    if size == "line":
        return text.splitlines(keepends=True)
    b = text.encode("utf-8")
    return [b[i : i + size].decode("utf-8", errors="replace") for i in range(0, len(b), size)]


def mutate(text: str, other: str, op: str, size: Any, pos: int) -> str:
    """Deterministic faulty save of `text` (pos selects the position among the sectors)."""
    sec = sectors(text, size)
    n = len(sec)
    if n == 0:
        return text
    rng = kit.family_rng("C20-mut", kit.digest([text[:200], op, size, pos]))
    i = rng.randrange(n)
    if op == "torn":
        return "".join(sec[:i]) + (sec[i][: rng.randrange(len(sec[i]) + 1)] if rng.random() < 0.5 else "")
    if op == "splice":
        osec = sectors(other, size)
        return "".join(sec[:i]) + "".join(osec[i:])
    if op == "lost":
        return "".join(sec[:i] + sec[i + 1 :])
    if op == "dup":
        return "".join(sec[: i + 1] + sec[i:])
    if op == "swap":
        j = rng.randrange(n)
        sec[i], sec[j] = sec[j], sec[i]
        return "".join(sec)
    if op == "flip":
        b = bytearray(text.encode("utf-8"))
        if not b:
            return text
        k = rng.randrange(len(b))
        b[k] ^= 1 << rng.randrange(7)
        return b.decode("utf-8", errors="replace")
    raise AssertionError(op)


def item_for(index: int) -> dict[str, Any]:
    cs = cases()
    n_per_case = len(OPERATORS) * len(SECTORS) * NPOS
    ci, rest = divmod(index, n_per_case)
    ci %= len(cs)
    oi, rest = divmod(rest, len(SECTORS) * NPOS)
    si, pos = divmod(rest, NPOS)
    c = cs[ci]
    targets = sorted(p for p in c["steps"][0] if p.endswith((".py", ".pyi")) and p not in FIXTURE_FILES)
    rng = kit.family_rng("C20-target", index)
    target = rng.choice(targets)
    other_case = cs[(ci + 1) % len(cs)]
    other = other_case["steps"][0].get("main.py", "")
    flags = corpus.step_flags(c, 0)
    if index % 4 == 0 and "--pretty" not in flags:
        flags = flags + ["--pretty"]  # source snippets + caret lines: position handling on damaged text
    return {"index": index, "case": c["file"] + "::" + c["name"], "files": c["steps"][0], "flags": flags, "appear": index % 3 != 0 and target != "main.py",
            "argv": corpus.step_argv(c, 0), "target": target, "op": OPERATORS[oi], "sector": SECTORS[si], "pos": pos,
            "mutated": mutate(c["steps"][0][target], other, OPERATORS[oi], SECTORS[si], pos)}


def family_size() -> int:
    return len(cases()) * len(OPERATORS) * len(SECTORS) * NPOS


def signature(text: str) -> str:
    """Call-site identification of an internal failure: exception type + innermost mypy frame."""
    if "maximum semantic analysis iteration count reached" in text:
        return "semanal:max_iterations"
    if "Traceback (most recent call last)" not in text and "INTERNAL ERROR" in text:
        return "internal_error:no_traceback"
    frames = re.findall(r'File "[^"]*?/(mypyc?/[^"]+)", line \d+, in (\S+)', text)
    exc = re.findall(r"^([A-Za-z_][\w.]*(?:Error|Exception|Exit|Interrupt))\b", text, re.M)
    last = frames[-1] if frames else ("?", "?")
    return f"{exc[-1] if exc else 'unknown'}@{last[0]}:{last[1]}"


def check_run(r: dict[str, Any], what: str, pretty: bool = False) -> dict[str, Any] | None:
    blob = (r.get("stdout") or "") + (r.get("stderr") or "") + (r.get("leaked") or "") + (r.get("traceback") or "")
    if r["status"] == "timeout":
        return {"kind": "hang", "where": what}
    if "INTERNAL ERROR" in blob or "Traceback (most recent call last)" in blob or r["status"] not in (0, 1, 2):
        return {"kind": "internal_failure", "where": what, "status": r["status"], "signature": signature(blob), "detail": blob[-1800:]}
    for line in (r.get("stdout") or "").splitlines() if not pretty else []:  # --pretty wraps messages to the terminal width
        if not LINE_RE.match(line) and not OTHER_OK.match(line):
            return {"kind": "malformed_message_line", "where": what, "line": line[:300]}
    return None


def confirm_real_typeshed(it: dict[str, Any], leg: str, tag: str) -> bool:
    """Is the internal failure still there with the bundled typeshed instead of the test fixtures?

    The corpus programs come with minimal builtins/typing stubs; a mutated program can need a
    builtin the stub lacks, which trips assertions that real mypy never reaches. Only failures that
    reproduce against the real typeshed are reported."""
    files = {p: t for p, t in it["files"].items() if p not in FIXTURE_FILES}
    files[it["target"]] = it["mutated"]
    flags = [f for f in it["flags"]]
    if leg == "batch":
        scn = {"files": files, "argv": it["argv"], "config": histsim.STORE_CONFIGS[0], "steps": []}
        h = histsim.History(scn, f"c20-{os.getpid()}-{tag}rt")
        try:
            r = h.run("cold", extra=flags + ["--show-traceback"], fixtures=False, env={"MYPYPATH": None, "MYPY_TEST_PREFIX": None})
        finally:
            h.close()
        return check_run(r, "real_typeshed") is not None and check_run(r, "x")["kind"] != "malformed_message_line"  # type: ignore[index]
    # the same requests as in eval_daemon (incl. the variant in which the damaged file is new to the daemon),
    # on the program without the fixture stubs
    steps = [dict(st, files={p: t for p, t in st["files"].items() if p not in FIXTURE_FILES},
                  mt={p: t for p, t in st["mt"].items() if p not in FIXTURE_FILES}) for st in daemon_steps(it)]
    root = kit.new_dir(f"c20-{os.getpid()}-{tag}rtd")
    try:
        got = kit.fork_call(daemonsim.history_child, root, None, flags, steps, {"real_typeshed": True}, timeout=240, output_path=os.path.join(root, "child.out"))
    except kit.HarnessError:
        return False
    finally:
        kit.rmtree(root)
    if isinstance(got, kit.ChildDied):
        return True
    return any("crash" in g for g in got)


def eval_batch(it: dict[str, Any], tag: str) -> dict[str, Any]:
    scn = {"files": it["files"], "argv": it["argv"], "config": histsim.STORE_CONFIGS[it["index"] % len(histsim.STORE_CONFIGS)], "steps": []}
    h = histsim.History(scn, f"c20-{os.getpid()}-{tag}")
    extra = list(it["flags"]) + ["--show-traceback"]
    out: dict[str, Any] = {"violation": None, "skipped": None, "runs": 0, "nontrivial": False}
    try:
        r1 = h.run("warm", extra=extra, timeout=60) if False else h.run("warm", extra=extra)
        out["runs"] += 1
        if check_run(r1, "original") is not None:
            out["skipped"] = "the unmodified corpus program does not run clean under the harness layout"
            return out
        if it["mutated"] == it["files"][it["target"]]:
            out["skipped"] = "fault left the file unchanged"
            return out
        h.apply_step({"edits": [{"e": "write", "path": it["target"], "text": it["mutated"]}], "gap_s": 2.0})
        r2 = h.run("warm", extra=extra)
        out["runs"] += 1
        out["nontrivial"] = r2.get("stdout") != r1.get("stdout")
        v = check_run(r2, "after_faulty_save", "--pretty" in extra)
        if v:
            out["violation"] = v
            return out
        h.apply_step({"edits": [{"e": "write", "path": it["target"], "text": it["files"][it["target"]]}], "gap_s": 2.0})
        r3 = h.run("warm", extra=extra)
        out["runs"] += 1
        v = check_run(r3, "after_heal", "--pretty" in extra)
        if v:
            out["violation"] = v
            return out
        if not runner.same_observable(r3, r1) and not runner.differs_only_in_only_once(r3, r1):
            out["violation"] = {"kind": "not_recovered_after_heal", "where": "batch", "diff": runner.first_difference(r3, r1)}
    finally:
        out["sim_time_s"] = h.world.sim_advance_s
        h.close()
    return out


def daemon_steps(it: dict[str, Any]) -> list[dict[str, Any]]:
    files0 = dict(it["files"])
    argv = [a for a in it["argv"] if not a.startswith("-")]
    t0 = 1_000_000_000.0
    mt0 = {p: t0 for p in files0}
    f1 = dict(files0, **{it["target"]: it["mutated"]})
    mt1 = dict(mt0, **{it["target"]: t0 + 2})
    mt2 = dict(mt0, **{it["target"]: t0 + 4})
    steps = [
        {"files": files0, "mt": mt0, "request": {"cmd": "check", "files": argv}},
        {"files": f1, "mt": mt1, "request": {"cmd": "check", "files": argv}},
        {"files": files0, "mt": mt2, "request": {"cmd": "check", "files": argv}},
    ]
    if it.get("appear") and it["target"] not in argv:
        # variant: the daemon has never seen the file; it first appears half-saved, then complete
        without = {p: t for p, t in files0.items() if p != it["target"]}
        # (every other member also names the new file in the request, like `dmypy check <dir>` would)
        argv2 = argv + [it["target"]] if it["index"] % 2 == 0 else argv
        steps = [
            {"files": without, "mt": {p: t0 for p in without}, "request": {"cmd": "check", "files": argv}},
            {"files": f1, "mt": mt1, "request": {"cmd": "check", "files": argv2}},
            {"files": f1, "mt": mt1, "request": {"cmd": "check", "files": argv2}},
            {"files": files0, "mt": mt2, "request": {"cmd": "check", "files": argv2}},
        ]
    return steps


def eval_daemon(it: dict[str, Any], tag: str) -> dict[str, Any]:
    out: dict[str, Any] = {"violation": None, "skipped": None, "runs": 0, "nontrivial": False}
    flags = [f for f in it["flags"]]
    files0 = dict(it["files"])
    argv = [a for a in it["argv"] if not a.startswith("-")]
    if not argv:
        out["skipped"] = "case is driven by -m/-p"
        return out
    steps = daemon_steps(it)
    root = kit.new_dir(f"c20-{os.getpid()}-{tag}d")
    try:
        try:
            got = kit.fork_call(daemonsim.history_child, root, None, flags, steps, None, timeout=120, output_path=os.path.join(root, "child.out"))
        except kit.HarnessError as e:
            if "process_start_options" in str(e) or "SystemExit" in str(e) or "sys.exit" in str(e):
                out["skipped"] = "flags not accepted by the daemon"
                return out
            raise
    finally:
        kit.rmtree(root)
    if isinstance(got, kit.ChildDied):
        out["violation"] = {"kind": "hang" if got.timed_out else "daemon_process_died", "where": "daemon", "detail": got.output[-1500:]}
        return out
    out["runs"] = len(got)
    if "crash" in got[0] or got[0].get("status") not in (0, 1, 2):
        out["skipped"] = "the unmodified corpus program does not check clean in the daemon"
        return out
    appear = len(steps) == 4
    names = ["daemon_check", "daemon_after_faulty_save", "daemon_after_heal"] if not appear else ["daemon_check_without_file", "daemon_file_appears_damaged", "daemon_same_request_again", "daemon_after_heal"]
    for g, nm in zip(got, names):
        if "crash" in g:
            out["violation"] = {"kind": "internal_failure", "where": nm, "signature": signature(g["crash"]), "detail": g["crash"][-1800:]}
            return out
        if g.get("status") not in (0, 1, 2) or "error" in g:
            out["violation"] = {"kind": "daemon_bad_response", "where": nm, "response": {k: str(v)[:300] for k, v in g.items()}}
            return out
    if len(got) < len(steps):
        out["violation"] = {"kind": "daemon_stopped_answering", "where": "daemon", "answered": len(got)}
        return out
    out["nontrivial"] = got[1].get("out") != got[0].get("out")
    if appear:
        # after the heal the long-lived daemon must agree with a fresh daemon on the complete files
        root2 = kit.new_dir(f"c20-{os.getpid()}-{tag}f")
        try:
            fresh = kit.fork_call(daemonsim.history_child, root2, None, flags, [steps[-1]], None, timeout=120, output_path=os.path.join(root2, "child.out"))
        finally:
            kit.rmtree(root2)
        if isinstance(fresh, kit.ChildDied) or "crash" in fresh[0]:
            out["skipped"] = "the complete program does not check clean in a fresh daemon"
            return out
        first = fresh[0]
    else:
        first = got[0]
    a, b = daemonsim.observable(got[-1]), daemonsim.observable(first)
    for o in (a, b):
        o["other"] = [l for l in o["other"] if not l.startswith(("Found ", "Success: "))]
    if a != b and c03_soft(a, b) is None:
        out["violation"] = {"kind": "not_recovered_after_heal", "where": "daemon", "after_heal": got[-1].get("out", "")[-800:], "first": first.get("out", "")[-800:], "status": [got[-1].get("status"), first.get("status")]}
    return out


def c03_soft(a: dict[str, Any], b: dict[str, Any]) -> str | None:
    from checks import c03

    return c03.classify_soft(a, b)


def task(item: tuple[str, int]) -> dict[str, Any]:
    leg, index = item
    it = item_for(index)
    r = eval_batch(it, f"b{index}") if leg == "batch" else eval_daemon(it, f"d{index}")
    out: dict[str, Any] = {
        "leg": leg,
        "k": index,
        "evaluations": 1 if r["runs"] else 0,
        "sim_time_s": r.get("sim_time_s", 4.0),
        "faults": {"save_" + it["op"]: 1, "sector_" + str(it["sector"]): 1, "leg_" + leg: 1},
        "probes": {"skipped_" + ("unclean_original" if r["skipped"] and "clean" in r["skipped"] else "other"): 1} if r["skipped"] else {"faulty_save_changed_output": 1 if r["nontrivial"] else 0},
        "nontrivial": [kit.digest([leg, it["case"], it["op"], it["sector"], it["pos"], it["target"]])] if r["nontrivial"] else [],
        "interleavings": [],
    }
    if index % 5000 == 0:
        out["sample"] = {"leg": leg, "case": it["case"], "target": it["target"], "op": it["op"], "sector": it["sector"], "mutated_tail": it["mutated"][-200:]}
    if r["violation"] is not None and r["violation"]["kind"] in ("internal_failure", "daemon_process_died"):
        if not confirm_real_typeshed(it, leg, f"c{index}"):
            out["probes"]["internal_failure_only_with_test_fixture_stubs"] = 1
            r["violation"] = None
        else:
            out["probes"]["internal_failure_confirmed_with_real_typeshed"] = 1
    if r["violation"] is not None:
        out["violation"] = {"leg": leg, "index": index, "case": it["case"], "op": it["op"], "sector": it["sector"], "pos": it["pos"], "target": it["target"], "violation": r["violation"]}
    return out


def vkey(v: dict[str, Any]) -> str:
    vv = v["violation"]
    if vv["kind"] == "internal_failure":
        return f"internal_failure:{vv['signature']}"
    return f"{vv['kind']}:{v['leg']}:{v['case']}:{v['op']}"


def match_known(v: dict[str, Any], known: list[dict[str, Any]]) -> dict[str, Any] | None:
    for e in known:
        m = e.get("match", {})
        if "signature" in m and v["violation"].get("signature") == m["signature"]:
            return e
        if "index" in m and m["index"] == v["index"] and m.get("leg") == v["leg"]:
            return e
        if "indices" in m:
            if v["index"] in m["indices"] and m["case"] == v["case"] and m.get("kind") == v["violation"]["kind"] and m.get("leg") == v["leg"]:
                return e
            continue
        if "case" in m and m["case"] == v["case"] and m.get("kind") == v["violation"]["kind"] and m.get("leg", v["leg"]) == v["leg"]:
            return e
    return None


def run(tier: str) -> int:
    rep = kit.Report(PROP, tier, "exploration")
    total = family_size()
    rep.rule = (
        f"finite family = corpus case ({len(cases())} single-step programs of check-*.test with their fixtures and flags) x fault "
        f"operator ({', '.join(OPERATORS)}) x sector size (line, 16 B, 64 B) x position index (0..{NPOS - 1}) = {total} faulty saves, "
        "each executed as a batch history (run; faulty save; run; heal; run on one cache) and as a daemon history (check; save; "
        "recheck; heal; recheck on one Server). VERIF_SEED selects the sample. evaluations = histories executed. Non-trivial = "
        "the faulty save changed the output; distinct by (leg, case, operator, sector, position)."
    )
    rep.real_components = ["mypy.main.main / build (batch leg)", "mypy.dmypy_server.Server + server.update (daemon leg)", "parser, semantic analyzer, checker on the mutated text"]
    rep.stub_components = ["typeshed (lib-stub + the case's own fixtures)", "the disk: faulty saves are applied by the harness between runs"]
    rep.assumptions = [
        "only the inputs that storage faults produce are covered; identifier cross-wiring and type-expression replacement of the property's quantifier are not",
        "a corpus program that does not run clean unmodified under the harness layout is skipped (counted)",
    ]
    # The registered family is the strided subset of the full product (every STRIDE-th member): it is small
    # enough to be swept completely, which the known-finding discipline needs (DESIGN 9.8).
    fam = list(range(0, total, STRIDE))
    n = 420 if tier == "quick" else len(fam)
    idx = [fam[j] for j in kit.sample_indices(PROP, "family", len(fam), n)]
    items = [("batch", i) for i in idx] + [("daemon", i) for i in idx[:: 2 if tier == "quick" else 1]]
    if tier == "quick":
        # most corpus programs are a single main.py; make sure the quick sample also holds daemon members in
        # which the damaged file is one the daemon has never seen before (same family, chosen by the seed)
        rs = kit.rng_for(PROP, "appear-sample")
        extra: list[int] = []
        for j in rs.sample(range(len(fam)), min(len(fam), 2500)):
            if len(extra) >= 120:
                break
            if fam[j] % 3 != 0 and item_for(fam[j])["appear"] and fam[j] not in idx:
                extra.append(fam[j])
        items += [("daemon", i) for i in sorted(extra)]
    only = os.environ.get("VERIF_C20_RANGE")
    if only:
        lo, hi, step = (int(x) for x in only.split(":"))
        idx = list(range(lo, min(hi, total), step))
        items = [("batch", i) for i in idx] + [("daemon", i) for i in idx]
    if os.environ.get("VERIF_C20_LEG"):
        items = [it_ for it_ in items if it_[0] == os.environ["VERIF_C20_LEG"]]
    known = kit.load_known_findings(PROP)
    results, skipped = kit.run_pool(task, items, budget_s=900 if tier == "quick" else 6 * 3600)
    by_class: dict[str, list[dict[str, Any]]] = {}
    for r in sorted(results, key=lambda r: (r["leg"], r["k"])):
        rep.add_result(r)
        if "violation" in r:
            by_class.setdefault(vkey(r["violation"]), []).append(r["violation"])
    kit.dump_raw(PROP, tier, {c_: [dict(v_, family=v_["leg"], k=v_["index"]) for v_ in vs_] for c_, vs_ in by_class.items()})
    for cls, vs in sorted(by_class.items()):
        e = match_known(vs[0], known)
        if e is not None and all(match_known(v, known) is not None for v in vs):
            rep.known_finding(f"{e['what']} (class {cls}, occurrences this run: {len(vs)})")
            continue
        v = next(v for v in vs if match_known(v, known) is None)
        again = task((v["leg"], v["index"]))
        if "violation" not in again:
            raise kit.HarnessError(f"violation did not reproduce: {cls} index {v['index']}")
        path = kit.write_replay(PROP, {"engine": "histsim+daemonsim/faulty-saves", "leg": v["leg"], "index": v["index"], "item": item_for(v["index"]), "violation": again["violation"]["violation"], "occurrences": [[x["leg"], x["index"]] for x in vs][:50]})
        rep.violation(path, f"{cls} occurrences={len(vs)}")
    rep.extra["family_size"] = total
    rep.extra["skipped_for_budget"] = skipped
    rep.exhaustive = False
    rep.write()
    print(f"C20 {tier}: {rep.evaluations} faulty-save histories, {len(rep.nontrivial)} non-trivial, {len(rep.violations)} violations, {len(rep.known)} known findings")
    return rep.exit_code()


def replay(path: str) -> int:
    with open(path) as f:
        rp = json.load(f)
    r = task((rp["leg"], rp["index"]))
    v = r.get("violation")
    print(json.dumps(v, indent=1, default=str)[:3000])
    if v is not None:
        print(f"VIOLATION property={PROP} replay={path}")
        return 1
    print("replay: no violation")
    return 0
